#!/bin/sh
# Offline setup: parse every specification and build the harness once (warms the Go build cache).
set -e
cd "$(dirname "$0")"
python3 - <<'PY'
import sys, os, glob, subprocess
sys.path.insert(0, "tools")
import vlib
d = vlib.prepare_specdir("setup")
bad = 0
for f in sorted(glob.glob(os.path.join(d, "*.tla"))):
    p = subprocess.run(["java", "-cp", vlib.TLA_CP, "tla2sany.SANY", os.path.basename(f)], cwd=d, stdout=subprocess.PIPE, stderr=subprocess.STDOUT, text=True)
    if p.returncode != 0 or "error" in p.stdout.lower().replace("semantic errors:\n\n", ""):
        if "*** Errors" in p.stdout or p.returncode != 0:
            print(p.stdout[-1500:]); bad += 1
vlib.build_harness()
print("setup ok" if not bad else "setup: %d spec(s) failed to parse" % bad)
sys.exit(1 if bad else 0)
PY
