package main

import (
	"strconv"
	"context"
	"encoding/json"
	"flag"
	"fmt"
	"os"
	"path/filepath"
	"sync"
	"sync/atomic"
	"time"

	"github.com/ipld/go-storethehash/store"
	mh "github.com/multiformats/go-multihash"

	"verif/harness/internal/core"
	"verif/harness/internal/sched"
)

// flushrate (C12): replays schedules of FlushRate.tla on a real store. Writers
// are goroutines calling Put; the flusher goroutine of Store.run is played by
// the harness (ticker = VerifTick, receive = VerifTakeFlushNow, then Flush);
// an optional thread calls Flush directly. Each schedule step runs one thread
// from one yield point to the next. After the schedule every thread runs free
// for up to 2 s and the store is STARTED: the library's own Store.run goroutine,
// with a 1 ms ticker, is the flusher of that phase.

type frScen struct {
	Schedule [][2]string `json:"schedule"`
	Writers  []string    `json:"writers"`
	Explicit bool        `json:"explicit"`
}

func init() { engines["flushrate"] = runFlushrate }

func runFlushrate(args []string) error {
	fs := flag.NewFlagSet("flushrate", flag.ExitOnError)
	o := core.ParseOpts(args, fs)
	scens, err := core.ReadScenarios(o.In)
	if err != nil {
		return err
	}
	var drift int64
	n, err := core.RunPool(o, scens, func(w int, dir string, tr *core.Tracer, idx int, raw json.RawMessage) error {
		var sc frScen
		if err := json.Unmarshal(raw, &sc); err != nil {
			return err
		}
		d, err := flushrateOne(dir, tr, &sc)
		atomic.AddInt64(&drift, int64(d))
		return err
	})
	core.Summary(map[string]any{"events": n, "scenarios": len(scens), "steps_where_code_and_model_disagree": drift})
	return err
}

const stepTimeout = 5 * time.Second

func flushrateOne(dir string, tr *core.Tracer, sc *frScen) (int, error) {
	d, err := os.MkdirTemp(dir, "fr")
	if err != nil {
		return 0, err
	}
	defer os.RemoveAll(d)
	st, err := store.OpenStore(context.Background(), store.MultihashPrimary, filepath.Join(d, "data"), filepath.Join(d, "index"), false,
		store.IndexBitSize(8), store.GCInterval(0), store.SyncInterval(time.Millisecond), store.BurstRate(0)) // the interval only matters once Start is called (free run)
	if err != nil {
		return 0, err
	}
	st.VerifSetFlushRate(1e-9)

	var mu sync.Mutex
	var over atomic.Bool // set when the scenario ends: goroutines left behind must not write into the next trace
	defer over.Store(true)
	s := sched.New()
	s.Log = func(e sched.Event) {
		if over.Load() {
			return
		}
		mu.Lock()
		if !over.Load() {
			tr.Emit("pt", core.Ev{"th": e.Thread, "p": e.Point, "seq": e.Seq})
		}
		mu.Unlock()
		if e.Point == "flush.notified" {
			// keep the rate-limited path enabled (Flush just stored a measured rate)
			st.VerifSetFlushRate(1e-9)
		}
	}
	emit := func(e string, kv core.Ev) {
		mu.Lock()
		if !over.Load() {
			tr.Emit(e, kv)
		}
		mu.Unlock()
	}
	emit("reset", core.Ev{"writers": sc.Writers, "explicit": sc.Explicit})

	threads := map[string]*sched.Thread{}
	var putErr sync.Map
	for i, w := range sc.Writers {
		key, _ := mh.Encode([]byte{byte(10 + i), 1, 2, 3, 4, 5, 6, 7}, mh.SHA2_256)
		name := w
		threads[w] = s.Go(w, func() {
			if err := st.Put(key, []byte("value-of-"+name)); err != nil {
				putErr.Store(name, err.Error())
			}
		})
	}
	var quit atomic.Bool
	threads["f"] = s.Go("f", func() {
		for {
			s.Yield("f.idle")
			if quit.Load() {
				return
			}
			st.Flush()
		}
	})
	threads["f"].StepUntil(stepTimeout, "f.idle")
	if sc.Explicit {
		threads["x"] = s.Go("x", func() { st.Flush() })
	}

	drift := 0
	step := func(th, name string) {
		t := threads[th]
		got := ""
		flushReturned := false
		emit("seg-begin", core.Ev{"th": th, "step": name})
		switch name {
		case "WPut":
			got = t.StepUntil(stepTimeout, "tick.afterRate")
		case "WMeasure":
			got = t.StepUntil(stepTimeout, "tick.decided")
		case "WRegister":
			got = t.StepUntil(stepTimeout, "tick.registered")
		case "WSignal":
			got = t.StepUntil(stepTimeout, "tick.signaled")
		case "WWake":
			got = t.StepUntil(stepTimeout)
		case "FTick":
			st.VerifTick()
			got = "ticked"
		case "FTake":
			if !st.VerifTakeFlushNow() {
				got = "no-signal"
				drift++
				break
			}
			got = t.StepUntil(stepTimeout, "flush.stamped")
		case "FCheck", "XCheck":
			got = t.StepUntil(stepTimeout, "flush.checked", "f.idle")
			flushReturned = got == "f.idle" || got == "done"
		case "FCommit", "XCommit":
			got = t.StepUntil(stepTimeout, "flush.committed", "f.idle")
			flushReturned = got == "f.idle" || got == "done"
		case "FNotify", "XNotify":
			got = t.StepUntil(stepTimeout, "f.idle")
			flushReturned = got == "f.idle" || got == "done"
		case "XStart":
			got = t.StepUntil(stepTimeout, "flush.stamped")
		}
		emit("seg-end", core.Ev{"th": th, "step": name, "got": got, "flushReturned": flushReturned})
		// a writer parked before its wait is let into the channel receive only when the model
		// wakes it; but after every flusher step we look whether a waiting writer CAN proceed
		if th == "f" || th == "x" {
			for _, w := range sc.Writers {
				wt := threads[w]
				if wt.At == "tick.signaled" || wt.Blocked {
					emit("probe", core.Ev{"th": w})
					wt.Step(40 * time.Millisecond)
				}
			}
		}
	}
	for _, stp := range sc.Schedule {
		th, name := stp[0], stp[1]
		if threads[th] == nil {
			return drift, fmt.Errorf("schedule names unknown thread %q", th)
		}
		step(th, name)
	}
	// free run: every thread proceeds on its own
	emit("free", nil)
	quit.Store(true)
	s.Free()
	// the REAL flusher goroutine (Store.run) with a 1 ms ticker takes over from the harness-played one
	st.Start()
	deadline := time.Now().Add(2 * time.Second)
	for time.Now().Before(deadline) {
		all := true
		for _, w := range sc.Writers {
			all = all && threads[w].IsDone()
		}
		if all {
			break
		}
		time.Sleep(2 * time.Millisecond)
	}
	stuck := []string{}
	for _, w := range sc.Writers {
		if !threads[w].IsDone() {
			stuck = append(stuck, w)
		}
	}
	if len(stuck) == 0 {
		// burst: two more writers make 8 rate-limited Puts each while the real flusher goroutine ticks every millisecond
		// (the measured flush rate is forced down all the time so that every Put takes the waiting path): every one of
		// them is a fresh chance for a tick to coincide with a queued signal
		var bdone [2]atomic.Bool
		stopRate := make(chan struct{})
		go func() {
			for {
				select {
				case <-stopRate:
					return
				default:
					st.VerifSetFlushRate(1e-9)
					time.Sleep(100 * time.Microsecond)
				}
			}
		}()
		for b := 0; b < 2; b++ {
			b := b
			go func() {
				for j := 0; j < 8; j++ {
					key, _ := mh.Encode([]byte{byte(100 + b), byte(j), 2, 3, 4, 5, 6, 7}, mh.SHA2_256)
					if err := st.Put(key, []byte("burst")); err != nil {
						putErr.Store("burst", err.Error())
					}
				}
				bdone[b].Store(true)
			}()
		}
		bdl := time.Now().Add(6 * time.Second)
		for time.Now().Before(bdl) && !(bdone[0].Load() && bdone[1].Load()) {
			time.Sleep(time.Millisecond)
		}
		close(stopRate)
		for b := 0; b < 2; b++ {
			if !bdone[b].Load() {
				stuck = append(stuck, "burst"+strconv.Itoa(b+1))
			}
		}
	}
	errs := map[string]string{}
	putErr.Range(func(k, v any) bool { errs[k.(string)] = v.(string); return true })
	emit("end", core.Ev{"stuck": stuck, "errs": len(errs)})
	if len(stuck) == 0 {
		st.Close()
	}
	// a stuck writer blocks for ever inside Put; the store is abandoned (its files are removed)
	return drift, nil
}
