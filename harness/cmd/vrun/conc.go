package main

import (
	"bytes"
	"context"
	"encoding/json"
	"flag"
	"fmt"
	"os"
	"path/filepath"
	"sort"
	"sync"
	"sync/atomic"
	"time"

	"github.com/ipld/go-storethehash/store"
	mhprimary "github.com/ipld/go-storethehash/store/primary/multihash"
	"github.com/ipld/go-storethehash/store/types"
	mh "github.com/multiformats/go-multihash"

	"verif/harness/internal/core"
	"verif/harness/internal/fsckread"
	"verif/harness/internal/sched"
)

// conc (C05, C06, C13-schedules): replays a schedule (a sequence of thread
// names) on a real store. Client threads run one call each; "f" runs one
// Flush (commit); "ig" one index GC cycle; "pg" one primary GC cycle. A step
// runs the named thread from its current yield point to the next one in the
// scenario's stop set (other points are passed). When the schedule is used up
// the remaining threads finish one after the other. The recorded history
// (invocations, responses with results, final contents after a flush and after
// a reopen) is judged by LinTrace.tla.

type concOp struct {
	Op string `json:"op"`
	K  string `json:"k"`
	V  int    `json:"v"`
}

type concScen struct {
	Prog     map[string]concOp `json:"prog"`
	Init     []string          `json:"init"`
	Imm      bool              `json:"imm"`
	Schedule []string          `json:"schedule"`
	Stops    []string          `json:"stops"`
	PL       int64             `json:"pl"`
	IL       int64             `json:"il"`
	LowUse   int64             `json:"lowUse"`
	Setup    []concOp          `json:"setup"` // sequential prefix executed (and flushed / GC'ed as its ops say) before the threads start
	Proj     bool              `json:"proj"`
	NoScan   bool              `json:"noScan"` // index GC cycle without the free-file scan
}

func init() { engines["conc"] = runConc }

func runConc(args []string) error {
	fs := flag.NewFlagSet("conc", flag.ExitOnError)
	o := core.ParseOpts(args, fs)
	scens, err := core.ReadScenarios(o.In)
	if err != nil {
		return err
	}
	var blocked, unused int64
	n, err := core.RunPool(o, scens, func(w int, dir string, tr *core.Tracer, idx int, raw json.RawMessage) error {
		var sc concScen
		if err := json.Unmarshal(raw, &sc); err != nil {
			return err
		}
		b, u, err := concOne(dir, tr, &sc)
		atomic.AddInt64(&blocked, int64(b))
		atomic.AddInt64(&unused, int64(u))
		return err
	})
	core.Summary(map[string]any{"events": n, "scenarios": len(scens), "steps_blocked": blocked, "schedule_steps_for_finished_threads": unused})
	return err
}

var concDigests = map[string][]byte{
	"A": {7, 9, 0, 3, 3, 3, 3, 1},
	"B": {7, 9, 1, 3, 3, 3, 3, 2},
	"C": {8, 9, 0, 3, 3, 3, 3, 3},
}

func concKey(name string) []byte {
	m, _ := mh.Encode(concDigests[name], mh.SHA2_256)
	return m
}

func concVal(k string, v int) []byte { return []byte(fmt.Sprintf("value-%d-of-%s-%s", v, k, bytes.Repeat([]byte("x"), 3*v))) }

func concValID(k string, b []byte) int {
	for v := 1; v <= 4; v++ {
		if bytes.Equal(b, concVal(k, v)) {
			return v
		}
	}
	return -2
}

func concOne(dir string, tr *core.Tracer, sc *concScen) (int, int, error) {
	d, err := os.MkdirTemp(dir, "cc")
	if err != nil {
		return 0, 0, err
	}
	defer os.RemoveAll(d)
	pl, il := sc.PL, sc.IL
	if pl == 0 {
		pl = 1 << 30
	}
	if il == 0 {
		il = 1 << 30
	}
	open := func() (*store.Store, error) {
		return store.OpenStore(context.Background(), store.MultihashPrimary, filepath.Join(d, "data"), filepath.Join(d, "index"), sc.Imm,
			store.IndexBitSize(8), store.IndexFileSize(uint32(il)), store.PrimaryFileSize(uint32(pl)),
			store.GCInterval(24*time.Hour), store.GCTimeLimit(0), store.SyncInterval(24*time.Hour), store.FileCacheSize(4))
	}
	st, err := open()
	if err != nil {
		return 0, 0, err
	}
	var mu sync.Mutex
	var over atomic.Bool
	defer over.Store(true)
	emit := func(e string, kv core.Ev) {
		mu.Lock()
		if !over.Load() {
			tr.Emit(e, kv)
		}
		mu.Unlock()
	}
	names := []string{"A", "B", "C"}
	initKV := map[string]int{"A": 0, "B": 0, "C": 0}
	for _, k := range sc.Init {
		if err := st.Put(concKey(k), concVal(k, 1)); err != nil {
			return 0, 0, err
		}
		initKV[k] = 1
	}
	if err := st.Flush(); err != nil {
		return 0, 0, err
	}
	mp, _ := st.Primary().(*mhprimary.MultihashPrimary)
	// sequential setup (not judged here; it shapes the files: superseded records, several files, pending freelist)
	for _, op := range sc.Setup {
		switch op.Op {
		case "put":
			err := st.Put(concKey(op.K), concVal(op.K, op.V))
			if err == nil || (sc.Imm && err == types.ErrKeyExists) {
				if err == nil {
					initKV[op.K] = op.V
				}
			} else {
				return 0, 0, fmt.Errorf("setup put: %w", err)
			}
		case "rem":
			if _, err := st.Remove(concKey(op.K)); err != nil {
				return 0, 0, fmt.Errorf("setup rem: %w", err)
			}
			initKV[op.K] = 0
		case "flush":
			st.Flush()
		case "prigc":
			mp.GC(context.Background(), 101)
		case "idxgc":
			st.Index().VerifGC(context.Background(), true)
		}
	}
	emit("reset", core.Ev{"init": initKV, "imm": sc.Imm, "keys": names})

	s := sched.New()
	s.Log = func(e sched.Event) {
		emit("pt", core.Ev{"th": e.Thread, "p": e.Point})
		if os.Getenv("VERIF_DEBUG") != "" {
			fmt.Fprintf(os.Stderr, "  %s @ %s\n", e.Thread, e.Point)
		}
	}
	threads := map[string]*sched.Thread{}
	order := make([]string, 0, len(sc.Prog)+3)
	for name := range sc.Prog {
		order = append(order, name)
	}
	sort.Strings(order)
	for _, name := range order {
		op, th := sc.Prog[name], name
		threads[th] = s.Go(th, func() {
			emit("inv", core.Ev{"th": th, "op": op.Op, "k": op.K, "v": op.V})
			r := []any{"error", "?"}
			func() {
				defer func() {
					if p := recover(); p != nil {
						r = []any{"panic", fmt.Sprint(p)}
					}
				}()
				switch op.Op {
				case "put":
					err := st.Put(concKey(op.K), concVal(op.K, op.V))
					switch {
					case err == nil:
						r = []any{"ok"}
					case err == types.ErrKeyExists:
						r = []any{"exists"}
					default:
						r = []any{"error", err.Error()}
					}
				case "get":
					v, found, err := st.Get(concKey(op.K))
					switch {
					case err != nil:
						r = []any{"error", err.Error()}
					case !found:
						r = []any{"absent"}
					default:
						r = []any{"val", concValID(op.K, v)}
					}
				case "has":
					found, err := st.Has(concKey(op.K))
					if err != nil {
						r = []any{"error", err.Error()}
					} else {
						r = []any{"has", found}
					}
				case "rem":
					removed, err := st.Remove(concKey(op.K))
					if err != nil {
						r = []any{"error", err.Error()}
					} else {
						r = []any{"removed", removed}
					}
				}
			}()
			emit("res", core.Ev{"th": th, "r": r})
		})
	}
	bg := func(name string, fn func() error) {
		threads[name] = s.Go(name, func() {
			var err error
			func() {
				defer func() {
					if p := recover(); p != nil {
						err = fmt.Errorf("panic: %v", p)
					}
				}()
				err = fn()
			}()
			emit("bg", core.Ev{"th": name, "err": errStr(err)})
		})
		order = append(order, name)
	}
	uses := map[string]bool{}
	for _, n := range sc.Schedule {
		uses[n] = true
	}
	if uses["f"] {
		bg("f", func() error { return st.Flush() })
	}
	if uses["f2"] {
		bg("f2", func() error { return st.Flush() })
	}
	if uses["ig"] {
		bg("ig", func() error { _, _, err := st.Index().VerifGC(context.Background(), !sc.NoScan); return err })
	}
	if uses["pg"] {
		bg("pg", func() error { _, err := mp.GC(context.Background(), sc.LowUse); return err })
	}

	// A step that does not reach a yield point within stepTimeout means the thread waits for a
	// lock held by a parked thread. It stays released; later steps of that thread only poll.
	const stepTimeout = 300 * time.Millisecond
	blocked, unused := 0, 0
	stepT := func(t *sched.Thread) string {
		if t.Blocked {
			p := t.Wait(2 * time.Millisecond)
			if p == "blocked" || p == "done" {
				return p
			}
			for _, x := range sc.Stops {
				if x == p {
					return p
				}
			}
		}
		if len(sc.Stops) == 0 {
			return t.Step(stepTimeout)
		}
		return t.StepUntil(stepTimeout, sc.Stops...)
	}
	for _, name := range sc.Schedule {
		t := threads[name]
		if t == nil {
			return blocked, unused, fmt.Errorf("schedule names unknown thread %q", name)
		}
		if t.Done {
			unused++
			continue
		}
		if stepT(t) == "blocked" {
			blocked++
		}
	}
	// finish: remaining threads run to completion one after the other; a thread blocked on a lock
	// held by a parked thread gets its turn again after the others moved
	for round := 0; round < 50; round++ {
		all := true
		for _, name := range order {
			t := threads[name]
			for i := 0; i < 400 && !t.Done; i++ {
				if t.Step(200*time.Millisecond) == "blocked" {
					break
				}
			}
			all = all && t.Done
		}
		if all {
			break
		}
	}
	stuck := []string{}
	for _, name := range order {
		if !threads[name].Done {
			stuck = append(stuck, name)
		}
	}
	if len(stuck) > 0 {
		emit("final", core.Ev{"stuck": stuck, "kv": map[string]int{}, "kv2": map[string]int{}, "errs": []string{"threads did not finish"}, "reopen": ""})
		s.Free()
		return blocked, unused, nil
	}
	// final contents: now, and after flush + clean reopen
	read := func(st *store.Store) (map[string]int, []string) {
		kv := map[string]int{}
		errs := []string{}
		for _, k := range names {
			v, found, err := st.Get(concKey(k))
			if err != nil {
				errs = append(errs, k+": "+err.Error())
			}
			if found {
				kv[k] = concValID(k, v)
			} else {
				kv[k] = 0
			}
		}
		return kv, errs
	}
	kv1, errs := read(st)
	ferr := st.Flush()
	if ferr != nil {
		errs = append(errs, "flush: "+ferr.Error())
	}
	ev := core.Ev{"stuck": stuck, "kv": kv1}
	cerr := st.Close()
	ev["reopen"] = errStr(cerr)
	if sc.Proj {
		// the files as Close left them (a freelist entry put after the last commit sits in the pool until
		// Close flushes it); the bucket table is the saved snapshot
		if p, err := fsckread.Read(d, "index", d, "data", false); err == nil {
			ev["st"], ev["bk"] = p, p.Snap
		}
	}
	kv2 := map[string]int{}
	if st2, err := open(); err != nil {
		ev["reopen"] = "open: " + err.Error()
	} else {
		var e2 []string
		kv2, e2 = read(st2)
		errs = append(errs, e2...)
		st2.Close()
	}
	ev["kv2"], ev["errs"] = kv2, errs
	emit("final", ev)
	return blocked, unused, nil
}
