package main

import (
	"encoding/json"
	"flag"
	"os"
	"path/filepath"
	"sync/atomic"

	store "github.com/ipld/go-storethehash/store"

	"verif/harness/internal/core"
)

// Engine upgctx (C10, "if the conversion is interrupted at any step, opening again completes it with the
// same result" - interruption by a cancelled context instead of a crash): for every legacy store the
// upgrading open is attempted with a context that reports DeadlineExceeded from its n-th check on, for
// EVERY n = 1, 2, ... up to the first n the open survives (it made fewer than n checks); what each
// interrupted attempt leaves is opened again with a live context, every key is read and the directory
// inspected. One "crashcase" event per n in the shape CrashTrace.tla judges (done = -2: the rule for an
// interrupted upgrade applies: open succeeds, same contents as the legacy map, no legacy file left).
func init() { engines["upgctx"] = runUpgCtx }

const upgCtxMax = 400

func runUpgCtx(args []string) error {
	fs := flag.NewFlagSet("upgctx", flag.ExitOnError)
	o := core.ParseOpts(args, fs)
	scens, err := core.ReadScenarios(o.In)
	if err != nil {
		return err
	}
	var attempts, interrupted int64
	n, err := core.RunPool(o, scens, func(w int, dir string, tr *core.Tracer, idx int, raw json.RawMessage) error {
		var sc crashScen
		if err := json.Unmarshal(raw, &sc); err != nil {
			return err
		}
		base, err := os.MkdirTemp(dir, "uc")
		if err != nil {
			return err
		}
		defer os.RemoveAll(base)
		root := filepath.Join(base, "s")
		if err := os.MkdirAll(root, 0o755); err != nil {
			return err
		}
		c := sc.Cfg
		r := &seqRun{sc: &seqScen{Cfg: c}, tr: tr}
		if err := r.mkKeys(); err != nil {
			return err
		}
		vlens := make([]int, len(c.Vals))
		for i, v := range c.Vals {
			vlens[i] = len(valBytes(v, 1))
		}
		kv, err := buildLegacy(root, r, sc.Legacy)
		if err != nil {
			return err
		}
		tr.Emit("reset", core.Ev{"nk": len(c.Keys), "vlens": vlens, "imm": c.Imm, "mode": "upgrade", "legacy": true, "lkv": orEmpty(kv)})
		from, to := 1, upgCtxMax
		if sc.Legacy.CtxN > 0 { // replay of one n
			from, to = sc.Legacy.CtxN, sc.Legacy.CtxN
		}
		for n := from; n <= to; n++ {
			d := filepath.Join(base, "img")
			os.RemoveAll(d)
			if err := copyDir(root, d); err != nil {
				return err
			}
			atomic.AddInt64(&attempts, 1)
			first, survived := "", false
			_, pan0 := guarded(func() error {
				st0, err0 := openAtCtx(deadlineCtx(n), d, r.primaryType(), c.Imm, c.Bits, c.IL, c.PL)
				if err0 == nil {
					survived = true
					err0 = st0.Close()
				}
				first = errStr(err0)
				return nil
			})
			if !survived {
				atomic.AddInt64(&interrupted, 1)
			}
			ev := core.Ev{"open": "", "obs": []int{}, "panic": "", "legacyLeft": []string{}, "done": -2, "closed": false, "cut": -1,
				"fsop": n, "fskind": "context-expired-at-check", "fsfile": "", "first": first, "survived": survived, "bits": c.Bits,
				"inflight": map[string]any{"op": "none", "k": 0, "v": 0, "idx": -1, "bits": 0}}
			obs := make([]int, len(r.keys))
			_, pan := guarded(func() error {
				st, err := openAt(d, r.primaryType(), c.Imm, c.Bits, c.IL, c.PL)
				if err != nil {
					ev["open"] = err.Error()
					return nil
				}
				left := []string{}
				if r.primaryType() == store.MultihashPrimary {
					for _, nm := range []string{"data", "index"} {
						if fi, err := os.Stat(filepath.Join(d, nm)); err == nil && !fi.IsDir() {
							left = append(left, nm)
						}
					}
				}
				ev["legacyLeft"] = left
				for i, key := range r.keys {
					v, found, err := st.Get(key)
					switch {
					case err != nil:
						obs[i] = -3
					case !found:
						obs[i] = 0
					default:
						if id := r.valID(i+1, v); id != 0 {
							obs[i] = id
						} else {
							obs[i] = -2
						}
					}
				}
				if err := st.Close(); err != nil {
					ev["open"] = "close after the resumed upgrade: " + err.Error()
				}
				return nil
			})
			if pan0 != "" {
				pan = "interrupted open: " + pan0
			}
			ev["panic"], ev["obs"] = pan, obs
			tr.Emit("crashcase", ev)
			if survived {
				break
			}
		}
		return nil
	})
	core.Summary(map[string]any{"events": n, "scenarios": len(scens), "interrupted_opens": interrupted, "attempts": attempts})
	return err
}
