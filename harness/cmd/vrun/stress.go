package main

import (
	cid "github.com/ipfs/go-cid"
	"context"
	"encoding/json"
	"flag"
	"fmt"
	"math/rand"
	"os"
	"path/filepath"
	"sort"
	"strconv"
	"strings"
	"sync"
	"sync/atomic"
	"time"

	"github.com/ipld/go-storethehash/store"
	mhprimary "github.com/ipld/go-storethehash/store/primary/multihash"
	mh "github.com/multiformats/go-multihash"

	"verif/harness/internal/core"
)

// stress (C05 / C06 free-running histories): the store runs as in production
// (started flusher with a 1 ms interval); W writers, each the ONLY writer of
// its keys, put increasing versions and remove; R readers read random keys;
// optional goroutines call Flush concurrently and drive index-GC / primary-GC
// cycles in a loop. Every call is logged with stamps from one atomic counter
// taken before the call and after it returned. RegTrace.tla checks the
// single-writer atomic-register conditions per key.

type stressScen struct {
	Seed     int64 `json:"seed"`
	Writers  int   `json:"writers"`
	Readers  int   `json:"readers"`
	Keys     int   `json:"keys"`
	Writes   int   `json:"writes"` // per writer
	Reads    int   `json:"reads"`  // per reader
	Flushers int   `json:"flushers"`
	IdxGC    bool  `json:"idxgc"`
	PriGC    bool  `json:"prigc"`
	LowUse   int64 `json:"lowUse"`
	PL       int64 `json:"pl"`
	IL       int64 `json:"il"`
	OwnGC    bool  `json:"owngc"` // let the store's own collectors run with a 2 ms interval
	Buckets  int   `json:"buckets"` // number of adjacent buckets the keys are spread over (default 4)
	Cid      bool  `json:"cid"`   // CID primary (keys are CIDv1/raw of the same multihashes; no primary GC)
	Gate     bool  `json:"gate"`  // every segment of a GC cycle between two yield points excludes foreground calls (closes the windows of the known findings KF-C06-*)
}

func init() { engines["stress"] = runStress }

func runStress(args []string) error {
	fs := flag.NewFlagSet("stress", flag.ExitOnError)
	o := core.ParseOpts(args, fs)
	scens, err := core.ReadScenarios(o.In)
	if err != nil {
		return err
	}
	old := core.ScenarioTimeout
	core.ScenarioTimeout = 120 * time.Second
	defer func() { core.ScenarioTimeout = old }()
	n, err := core.RunPool(o, scens, func(w int, dir string, tr *core.Tracer, idx int, raw json.RawMessage) error {
		var sc stressScen
		if err := json.Unmarshal(raw, &sc); err != nil {
			return err
		}
		return stressOne(dir, tr, &sc)
	})
	core.Summary(map[string]any{"events": n, "scenarios": len(scens)})
	return err
}

type stressEv struct {
	stamp int64
	ev    core.Ev
	e     string
}

var stressBuckets = 4
var stressCid = false

func stressKey(i int) []byte {
	// adjacent buckets, long shared prefixes inside a bucket
	nb := stressBuckets
	d := []byte{byte(40 + i%nb), 7, 7, byte(i / 64), 9, byte((i / nb) % 4), byte(i / 16), byte(i)}
	m, _ := mh.Encode(d, mh.SHA2_256)
	if stressCid {
		return cid.NewCidV1(cid.Raw, m).Bytes()
	}
	return m
}

func stressVal(k, ver int) []byte {
	return []byte(fmt.Sprintf("k%03d-v%07d-%s", k, ver, strings.Repeat("p", (k*7+ver)%23)))
}

// parse returns the version encoded in b if b is a value of key k, else -2
func stressParse(k int, b []byte) int {
	s := string(b)
	if len(s) < 14 || s[0] != 'k' || s[4:6] != "-v" {
		return -2
	}
	kk, err1 := strconv.Atoi(s[1:4])
	ver, err2 := strconv.Atoi(s[6:13])
	if err1 != nil || err2 != nil || kk != k || s != string(stressVal(k, ver)) {
		return -2
	}
	return ver
}

func stressOne(dir string, tr *core.Tracer, sc *stressScen) error {
	if sc.Buckets > 0 {
		stressBuckets = sc.Buckets // all scenarios of one run use the same value
		stressCid = sc.Cid
	}
	d, err := os.MkdirTemp(dir, "st")
	if err != nil {
		return err
	}
	defer os.RemoveAll(d)
	gcInt := 24 * time.Hour
	if sc.OwnGC {
		gcInt = 2 * time.Millisecond
	}
	open := func() (*store.Store, error) {
		ptype := store.MultihashPrimary
		if sc.Cid {
			ptype = store.CIDPrimary
		}
		return store.OpenStore(context.Background(), ptype, filepath.Join(d, "data"), filepath.Join(d, "index"), false,
			store.IndexBitSize(8), store.IndexFileSize(uint32(sc.IL)), store.PrimaryFileSize(uint32(sc.PL)),
			store.GCInterval(gcInt), store.GCTimeLimit(time.Second), store.SyncInterval(time.Millisecond), store.FileCacheSize(8))
	}
	st, err := open()
	if err != nil {
		return err
	}
	st.Start()
	var clock int64
	var mu sync.Mutex
	var evs []stressEv
	log := func(stamp int64, e string, kv core.Ev) {
		mu.Lock()
		evs = append(evs, stressEv{stamp, kv, e})
		mu.Unlock()
	}
	tick := func() int64 { return atomic.AddInt64(&clock, 1) }

	var wg, bgwg sync.WaitGroup
	stop := make(chan struct{})
	bgErrs := []string{}
	var bgMu sync.Mutex
	bgErr := func(what string, err error) {
		if err == nil || err == context.DeadlineExceeded {
			return
		}
		bgMu.Lock()
		if len(bgErrs) < 20 {
			bgErrs = append(bgErrs, what+": "+err.Error())
		}
		bgMu.Unlock()
	}
	for i := 0; i < sc.Flushers; i++ {
		bgwg.Add(1)
		go func() {
			defer bgwg.Done()
			for {
				select {
				case <-stop:
					return
				default:
				}
				bgErr("flush", st.Flush())
				time.Sleep(200 * time.Microsecond)
			}
		}()
	}
	// gate: foreground calls hold it shared; a collector holds it exclusively for one cycle, so a
	// cycle never runs WHILE a call is between its index lookup and its primary read (the windows
	// of the two known findings); cycles still overlap with flushes and with each other
	var gate sync.RWMutex
	gated := func(cycle func()) {
		if !sc.Gate {
			cycle()
			return
		}
		// a whole cycle excludes foreground calls (per-segment gating starved the collectors: they
		// completed almost no cycles); collector vs flusher and collector vs collector stay free
		gate.Lock()
		cycle()
		gate.Unlock()
	}
	enter := func() {
		if sc.Gate {
			gate.RLock()
		}
	}
	leave := func() {
		if sc.Gate {
			gate.RUnlock()
		}
	}
	mp, _ := st.Primary().(*mhprimary.MultihashPrimary)
	if sc.IdxGC {
		bgwg.Add(1)
		go func() {
			defer bgwg.Done()
			n := 0
			for {
				select {
				case <-stop:
					return
				default:
				}
				n++
				gated(func() { st.Index().VerifGC(context.Background(), n%3 == 0) }) // cycle errors are not judged
				time.Sleep(300 * time.Microsecond)
			}
		}()
	}
	if sc.PriGC {
		bgwg.Add(1)
		go func() {
			defer bgwg.Done()
			for {
				select {
				case <-stop:
					return
				default:
				}
				gated(func() { mp.GC(context.Background(), sc.LowUse) })
				time.Sleep(500 * time.Microsecond)
			}
		}()
	}
	for w := 0; w < sc.Writers; w++ {
		wg.Add(1)
		go func(w int) {
			defer wg.Done()
			rng := rand.New(rand.NewSource(sc.Seed*1000 + int64(w)))
			var mine []int
			for k := w; k < sc.Keys; k += sc.Writers {
				mine = append(mine, k)
			}
			ver := map[int]int{}
			for i := 0; i < sc.Writes; i++ {
				// skewed: most writes go to a fifth of the keys, so index and primary files hold a mix of
				// short-lived and long-lived records (collectors then free, merge and truncate piecemeal)
				k := mine[rng.Intn(len(mine))]
				if rng.Intn(5) != 0 {
					k = mine[rng.Intn(1+len(mine)/5)]
				}
				ver[k]++
				v := ver[k]
				if rng.Intn(5) == 0 {
					t0 := tick()
					enter()
					removed, err := st.Remove(stressKey(k))
					leave()
					t1 := tick()
					log(t0, "winv", core.Ev{"k": k, "ver": v, "rem": true})
					log(t1, "wres", core.Ev{"k": k, "ver": v, "rem": true, "err": errStr(err), "removed": removed})
				} else {
					t0 := tick()
					enter()
					err := st.Put(stressKey(k), stressVal(k, v))
					leave()
					t1 := tick()
					log(t0, "winv", core.Ev{"k": k, "ver": v, "rem": false})
					log(t1, "wres", core.Ev{"k": k, "ver": v, "rem": false, "err": errStr(err), "removed": false})
				}
				if i%64 == 0 {
					time.Sleep(100 * time.Microsecond)
				}
			}
		}(w)
	}
	for r := 0; r < sc.Readers; r++ {
		wg.Add(1)
		go func(r int) {
			defer wg.Done()
			rng := rand.New(rand.NewSource(sc.Seed*7777 + int64(r)))
			for i := 0; i < sc.Reads; i++ {
				k := rng.Intn(sc.Keys)
				id := fmt.Sprintf("r%d.%d", r, i)
				t0 := tick()
				enter()
				v, found, err := st.Get(stressKey(k))
				leave()
				t1 := tick()
				got := -1 // absent
				if found {
					got = stressParse(k, v)
				}
				log(t0, "rinv", core.Ev{"k": k, "id": id})
				log(t1, "rres", core.Ev{"k": k, "id": id, "got": got, "err": errStr(err)})
				if i%32 == 0 {
					time.Sleep(50 * time.Microsecond)
				}
			}
		}(r)
	}
	wg.Wait()
	close(stop)
	bgwg.Wait()
	// final contents, now and after Close + reopen
	final := func(st *store.Store) ([]int, []string) {
		out := make([]int, sc.Keys)
		var errs []string
		for k := 0; k < sc.Keys; k++ {
			v, found, err := st.Get(stressKey(k))
			if err != nil {
				errs = append(errs, err.Error())
			}
			out[k] = -1
			if found {
				out[k] = stressParse(k, v)
			}
		}
		return out, errs
	}
	f1, e1 := final(st)
	cerr := st.Close()
	f2, e2 := []int{}, []string{}
	st2, oerr := open()
	if oerr == nil {
		f2, e2 = final(st2)
		st2.Close()
	}
	sort.Slice(evs, func(i, j int) bool { return evs[i].stamp < evs[j].stamp })
	tr.Emit("reset", core.Ev{"nk": sc.Keys})
	for _, e := range evs {
		tr.Emit(e.e, e.ev)
	}
	if e1 == nil {
		e1 = []string{}
	}
	tr.Emit("final", core.Ev{"f1": f1, "f2": f2, "errs": append(e1, e2...), "cerr": errStr(cerr), "oerr": errStr(oerr), "bg": bgErrs})
	return nil
}
