package main

import (
	"encoding/binary"
	"fmt"
	"os"
	"path/filepath"

	"verif/harness/internal/fsckread"
)

// legacy describes a store in the legacy formats (version-2 single-file index,
// unversioned single-file primary, optional pending freelist) to be written by
// the harness itself (C10). Contents: key i (1-based) has value id Vals[i-1]
// (0 = never written); Freed lists keys whose record is superseded: written
// once with value id 3, then rewritten with their final value (or removed if
// final is 0); Pending says whether those freelist entries are still pending
// in the freelist file or were already applied (deleted bit set).
type legacy struct {
	Vals    []int `json:"vals"`
	Freed   []int `json:"freed"`
	Pending bool  `json:"pending"`
	Bits    int   `json:"bits"`
	// CtxN = n > 0: before the traced open the upgrade is attempted once with a context that reports DeadlineExceeded from
	// its n-th check on (an open interrupted by cancellation instead of a crash); what it leaves is the starting point
	CtxN int `json:"ctxN"`
	Torn    int   `json:"torn"` // with Lost > 0: the first lost record is torn, its first n bytes remain (n < record length)
	Lost    int   `json:"lost"` // the legacy primary lost its last n records (cut at a record boundary): keys whose current record is gone must be absent after the upgrade
}

// buildLegacy writes legacy files by building a current-format store with 1 GiB
// limits and repackaging its files: index.0 behind a v2 header becomes "index",
// data.0 becomes "data", the .info files and the snapshot are removed.
func buildLegacy(root string, r *seqRun, lg *legacy) ([]int, error) {
	c := r.sc.Cfg
	st, err := openAt(root, r.primaryType(), false, lg.Bits, 1<<30, 1<<30)
	if err != nil {
		return nil, err
	}
	freed := map[int]bool{}
	for _, k := range lg.Freed {
		freed[k] = true
	}
	kv := make([]int, len(r.keys))
	for i, key := range r.keys {
		k := i + 1
		final := 0
		if i < len(lg.Vals) {
			final = lg.Vals[i]
		}
		if freed[k] {
			if err := st.Put(key, valBytes(c.Vals[2], k)); err != nil {
				return nil, err
			}
			if err := st.Flush(); err != nil {
				return nil, err
			}
			if final == 0 {
				if _, err := st.Remove(key); err != nil {
					return nil, err
				}
			} else if final != 3 {
				if err := st.Put(key, valBytes(c.Vals[final-1], k)); err != nil {
					return nil, err
				}
			} else {
				final = 3
			}
		} else if final != 0 {
			if err := st.Put(key, valBytes(c.Vals[final-1], k)); err != nil {
				return nil, err
			}
		}
		kv[i] = final
		if k%2 == 0 {
			st.Flush()
		}
	}
	if err := st.Close(); err != nil {
		return nil, err
	}
	if !lg.Pending {
		// apply the freelist the way an old GC would have: set the deleted bit, empty the freelist
		fl, err := os.ReadFile(filepath.Join(root, "index.free"))
		if err != nil {
			return nil, err
		}
		data, err := os.ReadFile(filepath.Join(root, "data.0"))
		if err != nil {
			return nil, err
		}
		for ; len(fl) >= 12; fl = fl[12:] {
			off := binary.LittleEndian.Uint64(fl)
			if int(off)+4 <= len(data) {
				sz := binary.LittleEndian.Uint32(data[off:])
				binary.LittleEndian.PutUint32(data[off:], sz|1<<31)
			}
		}
		if err := os.WriteFile(filepath.Join(root, "data.0"), data, 0o644); err != nil {
			return nil, err
		}
		os.WriteFile(filepath.Join(root, "index.free"), nil, 0o644)
	}
	if lg.Lost > 0 {
		// cut the last records off the primary; index entries that name them must be dropped by the upgrade
		p, err := fsckread.Read(root, "index", root, "data", false)
		if err != nil {
			return nil, err
		}
		if len(p.PF) == 1 && len(p.PF[0].Recs) > lg.Lost {
			recs := p.PF[0].Recs
			cut := recs[len(recs)-lg.Lost].Off
			live := map[int64]bool{}
			for _, s := range p.Snap {
				live[s[1]] = true
			}
			for _, f := range p.IF {
				for _, rec := range f.Recs {
					if !live[rec.Pos] {
						continue
					}
					for _, en := range rec.Ents {
						if en.Off >= cut {
							// which key is it?
							for _, pr := range recs {
								if pr.Pos == en.Off {
									for i, dg := range r.digs {
										if len(pr.Dig) == len(dg) {
											same := true
											for j := range dg {
												same = same && int(dg[j]) == pr.Dig[j]
											}
											if same {
												kv[i] = 0
											}
										}
									}
								}
							}
						}
					}
				}
			}
			if lg.Torn > 0 {
				first := recs[len(recs)-lg.Lost]
				keep := int64(lg.Torn)
				if keep >= 4+first.Size {
					keep = 4 + first.Size - 1
				}
				cut += keep
			}
			if err := os.Truncate(filepath.Join(root, "data.0"), cut); err != nil {
				return nil, err
			}
		}
	}
	idx0, err := os.ReadFile(filepath.Join(root, "index.0"))
	if err != nil {
		return nil, err
	}
	if _, err := os.Stat(filepath.Join(root, "index.1")); err == nil {
		return nil, fmt.Errorf("legacy build unexpectedly rolled the index file")
	}
	hdr := []byte{2, 0, 0, 0, 2, byte(lg.Bits)} // u32 header size, version 2, bucket bits
	if err := os.WriteFile(filepath.Join(root, "index"), append(hdr, idx0...), 0o644); err != nil {
		return nil, err
	}
	// the old index file carried a header, so bucket positions were offset by it: the upgrade chunker
	// copies records only, positions are rebuilt by scanning (no snapshot) - nothing to adjust.
	if err := os.Rename(filepath.Join(root, "data.0"), filepath.Join(root, "data")); err != nil {
		return nil, err
	}
	for _, f := range []string{"index.0", "index.info", "index.buckets", "data.info"} {
		os.Remove(filepath.Join(root, f))
	}
	return kv, nil
}
