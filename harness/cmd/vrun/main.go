// vrun executes scenarios generated from the TLA+ specifications against the
// real go-storethehash code and records what it observes as ndjson traces.
package main

import (
	"fmt"
	"os"
)

type engine func(args []string) error

var engines = map[string]engine{}

func main() {
	if len(os.Args) < 2 {
		fmt.Fprintln(os.Stderr, "usage: vrun <engine> [flags]")
		os.Exit(2)
	}
	e, ok := engines[os.Args[1]]
	if !ok {
		fmt.Fprintln(os.Stderr, "unknown engine", os.Args[1])
		os.Exit(2)
	}
	if err := e(os.Args[2:]); err != nil {
		fmt.Fprintln(os.Stderr, "vrun:", err)
		os.Exit(3)
	}
}
