// Exit codes: 0 ok, 64 usage, 65 harness error. Anything else (2 = Go panic or
// fatal error, 4 = scenario timeout, signals) means the code under test killed
// or hung the process; the driver then isolates the scenario responsible.
//
// vrun executes scenarios generated from the TLA+ specifications against the
// real go-storethehash code and records what it observes as ndjson traces.
package main

import (
	"fmt"
	"os"
)

type engine func(args []string) error

var engines = map[string]engine{}

func main() {
	if len(os.Args) < 2 {
		fmt.Fprintln(os.Stderr, "usage: vrun <engine> [flags]")
		os.Exit(64)
	}
	e, ok := engines[os.Args[1]]
	if !ok {
		fmt.Fprintln(os.Stderr, "unknown engine", os.Args[1])
		os.Exit(64)
	}
	if err := e(os.Args[2:]); err != nil {
		fmt.Fprintln(os.Stderr, "vrun:", err)
		os.Exit(65)
	}
}
