package main

import (
	"bytes"
	"context"
	"encoding/json"
	"errors"
	"flag"
	"fmt"
	"os"
	"path/filepath"

	blocks "github.com/ipfs/go-block-format"
	"github.com/ipfs/go-cid"
	ipld "github.com/ipfs/go-ipld-format"
	storethehash "github.com/ipld/go-storethehash"
	"github.com/ipld/go-storethehash/store"
	mh "github.com/multiformats/go-multihash"

	"verif/harness/internal/core"
)

// bstore (C15): drives a real HashedBlockstore. Every call's outcome is recorded
// (error class, returned bytes identified by data id, returned CID equality, sizes)
// and after every call the contents are probed with Has/GetSize for every
// multihash of the scenario universe through a live context.

type bsCid struct {
	V     int    `json:"v"`
	Codec string `json:"codec"`
	Fn    string `json:"fn"`
	D     string `json:"d"`
}

type bsOp struct {
	Op string `json:"op"`
	C  bsCid  `json:"c"`
	D  string `json:"d"`
	C2 bsCid  `json:"c2"`
	D2 string `json:"d2"`
	X  bool   `json:"x"`
	B  bool   `json:"b"`
}

type bsScen struct {
	Ops []bsOp `json:"ops"`
}

var bsData = map[string][]byte{
	"d0": {},
	"d1": {0x42},
	"d2": bytes.Repeat([]byte{0xab, 0xcd, 0x01, 0x7f}, 256),
	"d3": []byte("hello, storethehash"),
	// with the identity hash the digest IS the block: three blocks whose digests share the index
	// bucket and eight further bytes, so that an unknown CID finds another block's index entry
	"d4": {1, 2, 3, 4, 5, 6, 7, 8, 0xaa},
	"d5": {1, 2, 3, 4, 5, 6, 7, 8, 0xbb, 0xcc},
	"d6": {1, 2, 3, 4, 5, 6, 7, 8, 0xbb, 0xdd, 0xee},
}

var bsFn = map[string]uint64{"sha2-256": mh.SHA2_256, "sha2-512": mh.SHA2_512, "blake2b-256": mh.BLAKE2B_MIN + 31, "sha3-256": mh.SHA3_256, "identity": mh.IDENTITY,
	"sha2-256/20": mh.SHA2_256, "sha2-512/32": mh.SHA2_512}

// truncated digests (the multihash records the shorter length)
var bsTrunc = map[string]int{"sha2-256/20": 20, "sha2-512/32": 32}
var bsCodec = map[string]uint64{"raw": cid.Raw, "dag-pb": cid.DagProtobuf, "dag-cbor": cid.DagCBOR}

func init() { engines["bstore"] = runBstore }

func runBstore(args []string) error {
	fs := flag.NewFlagSet("bstore", flag.ExitOnError)
	o := core.ParseOpts(args, fs)
	scens, err := core.ReadScenarios(o.In)
	if err != nil {
		return err
	}
	n, err := core.RunPool(o, scens, func(w int, dir string, tr *core.Tracer, idx int, raw json.RawMessage) error {
		var sc bsScen
		if err := json.Unmarshal(raw, &sc); err != nil {
			return err
		}
		return bstoreOne(dir, tr, &sc)
	})
	core.Summary(map[string]any{"events": n, "scenarios": len(scens)})
	return err
}

func mkCid(c bsCid) (cid.Cid, error) {
	p := cid.Prefix{Version: uint64(c.V), Codec: bsCodec[c.Codec], MhType: bsFn[c.Fn], MhLength: -1}
	if n, ok := bsTrunc[c.Fn]; ok {
		p.MhLength = n // a multihash whose digest is truncated to n bytes
	}
	return p.Sum(bsData[c.D])
}

func dataID(b []byte) string {
	for id, d := range bsData {
		if bytes.Equal(b, d) {
			return id
		}
	}
	return "unknown"
}

func errClass(err error) string {
	switch {
	case err == nil:
		return "ok"
	case errors.Is(err, context.Canceled):
		return "ctx"
	case ipld.IsNotFound(err):
		return "notfound"
	case errors.Is(err, blocks.ErrWrongHash):
		return "wronghash"
	}
	return "other:" + err.Error()
}

func bstoreOne(dir string, tr *core.Tracer, sc *bsScen) error {
	d, err := os.MkdirTemp(dir, "bs")
	if err != nil {
		return err
	}
	defer os.RemoveAll(d)
	live := context.Background()
	dead, cancel := context.WithCancel(live)
	cancel()
	bs, err := storethehash.OpenHashedBlockstore(live, filepath.Join(d, "index"), filepath.Join(d, "data"),
		store.IndexBitSize(8), store.GCInterval(0))
	if err != nil {
		return err
	}
	defer bs.Close()

	// universe of multihashes to probe: those of every CID mentioned
	type mhk struct{ Fn, D string }
	uni := map[mhk]bool{}
	var order []mhk
	add := func(c bsCid) {
		k := mhk{c.Fn, c.D}
		if c.Fn != "" && !uni[k] {
			uni[k] = true
			order = append(order, k)
		}
	}
	for _, op := range sc.Ops {
		add(op.C)
		add(op.C2)
	}
	probe := func() []any {
		out := make([]any, 0, len(order))
		for _, k := range order {
			c, err := mkCid(bsCid{V: 1, Codec: "raw", Fn: k.Fn, D: k.D})
			if err != nil {
				panic(err)
			}
			has, herr := bs.Has(live, c)
			sz, serr := bs.GetSize(live, c)
			gd := "none"
			blk, gerr := bs.Get(live, c)
			if gerr == nil {
				gd = dataID(blk.RawData())
			}
			out = append(out, map[string]any{"fn": k.Fn, "d": k.D, "has": has, "herr": errClass(herr), "size": sz, "serr": errClass(serr),
				"gerr": errClass(gerr), "gd": gd})
		}
		return out
	}
	sizes := map[string]any{}
	for id, b := range bsData {
		sizes[id] = len(b)
	}
	tr.Emit("reset", core.Ev{"sizes": sizes})
	ctxOf := func(x bool) context.Context {
		if x {
			return dead
		}
		return live
	}
	// the empty block comes in both Go forms: every other call hands it over as a nil slice, the rest as []byte{}
	dataOf := func(id string, opi int) []byte {
		d := bsData[id]
		if len(d) == 0 && opi%2 == 1 {
			return nil
		}
		return d
	}
	for opi, op := range sc.Ops {
		ev := core.Ev{"c": op.C, "x": op.X, "r": "", "d": "none", "size": -1, "cideq": true, "has": false, "b": op.B, "din": op.D, "c2": op.C2, "d2in": op.D2}
		var c cid.Cid
		if op.Op != "hashonread" {
			if c, err = mkCid(op.C); err != nil {
				return fmt.Errorf("mkCid %+v: %w", op.C, err)
			}
		}
		switch op.Op {
		case "put":
			blk, err := blocks.NewBlockWithCid(dataOf(op.D, opi), c)
			if err != nil {
				return err
			}
			ev["r"] = errClass(bs.Put(ctxOf(op.X), blk))
		case "putmany":
			c2, err := mkCid(op.C2)
			if err != nil {
				return err
			}
			b1, _ := blocks.NewBlockWithCid(dataOf(op.D, opi), c)
			b2, _ := blocks.NewBlockWithCid(dataOf(op.D2, opi+1), c2)
			ev["r"] = errClass(bs.PutMany(ctxOf(op.X), []blocks.Block{b1, b2}))
		case "get":
			blk, err := bs.Get(ctxOf(op.X), c)
			ev["r"] = errClass(err)
			if err == nil {
				ev["d"] = dataID(blk.RawData())
				ev["cideq"] = blk.Cid().Equals(c)
			}
		case "has":
			has, err := bs.Has(ctxOf(op.X), c)
			ev["r"] = errClass(err)
			ev["has"] = has
		case "size":
			sz, err := bs.GetSize(ctxOf(op.X), c)
			ev["r"] = errClass(err)
			ev["size"] = sz
		case "delete":
			ev["r"] = errClass(bs.DeleteBlock(ctxOf(op.X), c))
		case "hashonread":
			bs.HashOnRead(op.B)
			ev["r"] = "ok"
		default:
			return fmt.Errorf("unknown op %q", op.Op)
		}
		ev["probe"] = probe()
		tr.Emit(op.Op, ev)
	}
	return nil
}
