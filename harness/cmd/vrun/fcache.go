package main

import (
	"encoding/json"
	"flag"
	"fmt"
	"os"
	"path/filepath"
	"strings"

	"github.com/ipld/go-storethehash/store/filecache"

	"verif/harness/internal/core"
)

// fcache (C14): drives a real filecache.FileCache over real files. After every
// call it records, for every handle handed out so far, whether the *os.File is
// still usable (Stat succeeds), the number of descriptors this scenario holds on
// its files (from /proc/self/fd), the cache's Len and Cap, the call's error and
// whether it panicked.

type fcOp struct {
	Op string `json:"op"`
	N  string `json:"n"`
	H  int    `json:"h"`
	C  int    `json:"c"`
}

type fcScen struct {
	Ops      []fcOp `json:"ops"`
	Open     []bool `json:"open"`
	Panicked bool   `json:"panicked"`
}

func init() { engines["fcache"] = runFcache }

func runFcache(args []string) error {
	fs := flag.NewFlagSet("fcache", flag.ExitOnError)
	o := core.ParseOpts(args, fs)
	scens, err := core.ReadScenarios(o.In)
	if err != nil {
		return err
	}
	res := make([]int8, len(scens))
	n, err := core.RunPool(o, scens, func(w int, dir string, tr *core.Tracer, idx int, raw json.RawMessage) error {
		var sc fcScen
		if err := json.Unmarshal(raw, &sc); err != nil {
			return err
		}
		ok, err := fcacheOne(dir, tr, &sc)
		if ok {
			res[idx] = 1
		} else {
			res[idx] = -1
		}
		return err
	})
	var eq, ne int
	for _, r := range res {
		if r == 1 {
			eq++
		} else if r == -1 {
			ne++
		}
	}
	core.Summary(map[string]any{"events": n, "scenarios": len(scens), "model_open_equal": eq, "model_open_differs": ne})
	return err
}

func countFds(dir string) int {
	ents, err := os.ReadDir("/proc/self/fd")
	if err != nil {
		return -1
	}
	n := 0
	for _, e := range ents {
		t, err := os.Readlink("/proc/self/fd/" + e.Name())
		if err == nil && strings.HasPrefix(t, dir+"/") {
			n++
		}
	}
	return n
}

func fcacheOne(dir string, tr *core.Tracer, sc *fcScen) (bool, error) {
	d, err := os.MkdirTemp(dir, "fc")
	if err != nil {
		return false, err
	}
	defer os.RemoveAll(d)
	for _, n := range []string{"a", "b", "c", "d"} {
		if err := os.WriteFile(filepath.Join(d, n), []byte(n), 0o644); err != nil {
			return false, err
		}
	}
	var fc *filecache.FileCache
	var handles []*os.File
	defer func() {
		for _, h := range handles {
			h.Close()
		}
	}()
	panicked := false
	lent := map[int]int{}
	for _, op := range sc.Ops {
		ev := core.Ev{"err": "", "h": 0, "n": op.N, "c": op.C, "panic": false}
		if panicked {
			break
		}
		if op.Op == "closesel" {
			// random histories: close the (c mod #held)-th handle currently held
			var held []int
			for h := 1; h <= len(handles); h++ {
				if lent[h] > 0 {
					held = append(held, h)
				}
			}
			if len(held) == 0 {
				continue
			}
			op.Op, op.H = "close", held[op.C%len(held)]
		}
		func() {
			defer func() {
				if r := recover(); r != nil {
					ev["panic"] = true
					ev["err"] = fmt.Sprint(r)
					panicked = true
				}
			}()
			switch op.Op {
			case "new":
				fc = filecache.New(op.C)
			case "open":
				f, err := fc.Open(filepath.Join(d, op.N))
				if err != nil {
					ev["err"] = err.Error()
					return
				}
				id := 0
				for i, h := range handles {
					if h == f {
						id = i + 1
					}
				}
				if id == 0 {
					handles = append(handles, f)
					id = len(handles)
				}
				ev["h"] = id
				lent[id]++
			case "close":
				ev["h"] = op.H
				lent[op.H]--
				if op.H < 1 || op.H > len(handles) {
					ev["err"] = "harness: no such handle"
					return
				}
				if err := fc.Close(handles[op.H-1]); err != nil {
					ev["err"] = err.Error()
				}
			case "remove":
				fc.Remove(filepath.Join(d, op.N))
			case "clear":
				fc.Clear()
			case "setsize":
				fc.SetCacheSize(op.C)
			}
		}()
		stat := make([]bool, len(handles))
		names := make([]string, len(handles))
		for i, h := range handles {
			_, err := h.Stat()
			stat[i] = err == nil
			names[i] = filepath.Base(h.Name())
		}
		ev["stat"], ev["names"], ev["fds"] = stat, names, countFds(d)
		ev["len"], ev["cap"] = -1, -1
		if !panicked {
			ev["len"], ev["cap"] = fc.Len(), fc.Cap()
		}
		tr.Emit(op.Op, ev)
	}
	if panicked != sc.Panicked {
		return false, nil
	}
	for i, h := range handles {
		_, err := h.Stat()
		if i < len(sc.Open) && (err == nil) != sc.Open[i] {
			return false, nil
		}
	}
	return true, nil
}
