package main

import (
	"context"
	"encoding/json"
	"flag"
	"fmt"
	"math/rand"
	"os"
	"os/exec"
	"path/filepath"
	"strconv"
	"strings"
	"sync/atomic"
	"time"

	"github.com/ipld/go-storethehash/store"
	mhprimary "github.com/ipld/go-storethehash/store/primary/multihash"
	"github.com/ipld/go-storethehash/store/types"

	"verif/harness/internal/core"
	"verif/harness/internal/straceimg"
)

// crash (C03, C09 crash clause, C10 crash clause): the scenario is executed by a
// CHILD process under strace; from the log of its file-system calls every
// intermediate directory image is rebuilt (and byte prefixes of appended or
// overwritten regions); on each image the real OpenStore is run, every key is
// read, and a continuation history (writes, flush, GC cycles, reopen by rescan)
// is executed. No source hooks are involved, so a change that reorders, drops
// or adds a file operation changes the images by itself.

type crashScen struct {
	Cfg      seqCfg  `json:"cfg"`
	Ops      []seqOp `json:"ops"`
	MaxImgs  int     `json:"maxImgs"`  // cap on images explored (seeded sample beyond it)
	// FinalOnly: only the image after the LAST file-system call (the complete run, no interruption) is recovered
	FinalOnly bool `json:"finalOnly"`
	Cont     []seqOp `json:"cont"`     // continuation after recovery
	Legacy   *legacy `json:"legacy"`   // build a legacy-format store first (C10)
	Mode     string  `json:"mode"`     // "" (C03) | "rebucket" (C09) | "upgrade" (C10)
	Seed     int64   `json:"seed"`
	AllTorn  bool    `json:"allTorn"`  // every byte prefix of every write
	OnlyOps  []int   `json:"onlyOps"`  // restrict crash points to these scenario op indices (in-flight), empty = all
}

func init() {
	engines["crash"] = runCrash
	engines["crashchild"] = runCrashChild
}

// ---------------------------------------------------------------- child

func mark(f *os.File, s string) { f.Write([]byte(s + "\n")) }

func runCrashChild(args []string) error {
	fs := flag.NewFlagSet("crashchild", flag.ExitOnError)
	scenPath := fs.String("scen", "", "")
	dir := fs.String("sdir", "", "")
	marks := fs.String("marks", "", "")
	fs.Parse(args)
	raw, err := os.ReadFile(*scenPath)
	if err != nil {
		return err
	}
	var sc crashScen
	if err := json.Unmarshal(raw, &sc); err != nil {
		return err
	}
	mf, err := os.OpenFile(*marks, os.O_WRONLY|os.O_APPEND|os.O_CREATE, 0o644)
	if err != nil {
		return err
	}
	defer mf.Close()
	r := &seqRun{sc: &seqScen{Cfg: sc.Cfg}}
	if err := r.mkKeys(); err != nil {
		return err
	}
	c := sc.Cfg
	bits := c.Bits
	mark(mf, "B -1")
	var st *store.Store
	if sc.Legacy != nil && sc.Legacy.CtxN > 0 {
		guarded(func() error {
			if st0, err0 := openAtCtx(deadlineCtx(sc.Legacy.CtxN), *dir, r.primaryType(), c.Imm, bits, c.IL, c.PL); err0 == nil {
				st0.Close()
			}
			return nil
		})
	}
	_, pan0 := guarded(func() error {
		st, err = openAt(*dir, r.primaryType(), c.Imm, bits, c.IL, c.PL)
		return nil
	})
	if pan0 != "" {
		mark(mf, "E -1 "+strconv.Quote("panic: "+pan0))
		return nil
	}
	mark(mf, "E -1 "+strconv.Quote(errStr(err)))
	if err != nil {
		return nil
	}
	for i, op := range sc.Ops {
		mark(mf, fmt.Sprintf("B %d", i))
		res := ""
		var key []byte
		if op.K >= 1 && op.K <= len(r.keys) {
			key = r.keys[op.K-1]
		}
		_, pan := guarded(func() error {
			switch op.Op {
			case "put":
				err := st.Put(key, valBytes(c.Vals[op.V-1], op.K))
				if err == types.ErrKeyExists {
					res = "exists"
				} else {
					res = errStr(err)
				}
			case "rem":
				_, err := st.Remove(key)
				res = errStr(err)
			case "get":
				_, _, err := st.Get(key)
				res = errStr(err)
			case "flush":
				res = errStr(st.Flush())
			case "idxgc":
				st.Index().VerifGC(deadlineCtx(op.Deadline), op.ScanFree)
			case "prigc":
				if mp, ok := st.Primary().(*mhprimary.MultihashPrimary); ok {
					mp.GC(deadlineCtx(op.Deadline), op.LowUse)
				}
			case "reopen":
				res = errStr(st.Close())
				switch op.Snap {
				case "drop":
					os.Remove(filepath.Join(*dir, "index.buckets"))
				}
				if op.Bits != 0 {
					bits = op.Bits
				}
				mark(mf, fmt.Sprintf("C %d", i)) // closed; the open that follows may translate the index
				var err error
				st, err = openAt(*dir, r.primaryType(), c.Imm, bits, c.IL, c.PL)
				if err != nil {
					res = "open: " + err.Error()
				}
			}
			return nil
		})
		if pan != "" {
			res = "panic: " + pan
		}
		mark(mf, fmt.Sprintf("E %d %s", i, strconv.Quote(res)))
		if pan != "" || st == nil || strings.HasPrefix(res, "open: ") {
			return nil
		}
	}
	// the process "dies" here without Close
	return nil
}

// ---------------------------------------------------------------- parent

func runCrash(args []string) error {
	fs := flag.NewFlagSet("crash", flag.ExitOnError)
	o := core.ParseOpts(args, fs)
	scens, err := core.ReadScenarios(o.In)
	if err != nil {
		return err
	}
	old := core.ScenarioTimeout
	core.ScenarioTimeout = 20 * time.Minute
	defer func() { core.ScenarioTimeout = old }()
	self, _ := os.Executable()
	var images, fsops, slow int64
	n, err := core.RunPool(o, scens, func(w int, dir string, tr *core.Tracer, idx int, raw json.RawMessage) error {
		var sc crashScen
		if err := json.Unmarshal(raw, &sc); err != nil {
			return err
		}
		ni, nf, ns, err := crashOne(self, dir, tr, &sc, raw, o.Out, w, idx)
		atomic.AddInt64(&images, int64(ni))
		atomic.AddInt64(&fsops, int64(nf))
		atomic.AddInt64(&slow, int64(ns))
		return err
	})
	core.Summary(map[string]any{"events": n, "scenarios": len(scens), "crash_images": images, "fs_operations_traced": fsops, "recoveries_over_watchdog": slow})
	return err
}

type crashPoint struct {
	at       int    // image after ops[:at] (index into the op list incl. marks)
	cut      int    // -1: none; else the op at index `at` applied only with its first `cut` bytes
	done     int    // number of scenario ops completed (highest E mark seen), -1 = initial open not finished
	inflight int    // scenario op in flight (-2 none)
	closed   bool   // crash inside the open part of a reopen (store was closed cleanly before)
}

// crashOne runs one traced scenario. The reconstruction of the child's directory from the strace log is
// self-checked against the real directory; when the self-check fails (seen only on a heavily loaded machine) nothing
// has been judged yet, the log is kept for diagnosis and the scenario is traced again in a fresh child.
func crashOne(self, dir string, tr *core.Tracer, sc *crashScen, raw json.RawMessage, outPrefix string, w, idx int) (int, int, int, error) {
	var a, b, c int
	var err error
	for attempt := 0; attempt < 4; attempt++ {
		a, b, c, err = crashOnce(self, dir, tr, sc, raw, outPrefix, w, idx)
		if err == nil || !strings.Contains(err.Error(), "reconstruction") {
			return a, b, c, err
		}
		fmt.Fprintf(os.Stderr, "vrun: scenario %d attempt %d: %v (tracing again)\n", idx, attempt, err)
	}
	return a, b, c, err
}

func crashOnce(self, dir string, tr *core.Tracer, sc *crashScen, raw json.RawMessage, outPrefix string, w, idx int) (int, int, int, error) {
	base, err := os.MkdirTemp(dir, "cr")
	if err != nil {
		return 0, 0, 0, err
	}
	defer os.RemoveAll(base)
	root := filepath.Join(base, "s")
	if err := os.MkdirAll(root, 0o755); err != nil {
		return 0, 0, 0, err
	}
	c := sc.Cfg
	r := &seqRun{sc: &seqScen{Cfg: c}, tr: tr}
	if err := r.mkKeys(); err != nil {
		return 0, 0, 0, err
	}
	vlens := make([]int, len(c.Vals))
	for i, v := range c.Vals {
		vlens[i] = len(valBytes(v, 1))
	}
	legacyKV := []int(nil)
	if sc.Legacy != nil {
		kv, err := buildLegacy(root, r, sc.Legacy)
		if err != nil {
			return 0, 0, 0, fmt.Errorf("legacy store: %w", err)
		}
		legacyKV = kv
	}
	img0 := straceimg.NewImage(root)
	filepath.Walk(root, func(p string, info os.FileInfo, err error) error {
		if err == nil && !info.IsDir() {
			b, _ := os.ReadFile(p)
			img0.Files[p] = b
		} else if err == nil {
			img0.Dirs[p] = true
		}
		return nil
	})
	scenFile := filepath.Join(base, "scen.json")
	os.WriteFile(scenFile, raw, 0o644)
	marks := filepath.Join(base, "marks")
	logf := filepath.Join(base, "strace.log")
	cmd := exec.Command("strace", "-f", "-y", "-xx", "-s", "4000000", "-o", logf,
		"-e", "trace=openat,write,pwrite64,ftruncate,truncate,rename,renameat,renameat2,unlink,unlinkat,rmdir,mkdir,mkdirat,copy_file_range,sendfile",
		self, "crashchild", "-scen", scenFile, "-sdir", root, "-marks", marks)
	cmd.Env = append(os.Environ(), "GOLOG_LOG_LEVEL=fatal", "GOMAXPROCS=2")
	if out, err := cmd.CombinedOutput(); err != nil {
		return 0, 0, 0, fmt.Errorf("strace child: %v: %s", err, out)
	}
	if kd := os.Getenv("VERIF_CRASH_KEEPLOGS"); kd != "" {
		// kept for diagnosis of unreproduced verdicts (removed by the driver)
		os.MkdirAll(kd, 0o755)
		copyFileTo(logf, filepath.Join(kd, fmt.Sprintf("%d.strace", idx)))
		copyFileTo(marks, filepath.Join(kd, fmt.Sprintf("%d.marks", idx)))
	}
	ops, err := straceimg.Parse(logf, root, marks)
	if err != nil {
		return 0, 0, 0, err
	}
	if sc.Mode == "upgrade" {
		// the file-system calls of the upgrading open, in order, for the protocol conformance check (Upgrade.tla):
		// everything up to the end of the open (mark "E -1")
		var list [][3]string
		for _, op := range ops {
			if op.Kind == "mark" {
				if strings.HasPrefix(string(op.Data), "E -1") {
					break
				}
				continue
			}
			list = append(list, [3]string{op.Kind, filepath.Base(op.Path), filepath.Base(op.Path2)})
		}
		if b, err := json.Marshal(map[string]any{"t": idx, "ops": list}); err == nil {
			os.WriteFile(fmt.Sprintf("%s.fsops.%d.json", outPrefix, idx), b, 0o644)
		}
	}
	if sc.Mode == "rebucket" {
		// the renames and directory calls of the whole run, with paths relative to the store directory (Translate.tla)
		var list [][3]string
		rel := func(p string) string {
			if r, err := filepath.Rel(root, p); err == nil {
				return r
			}
			return p
		}
		for _, op := range ops {
			if op.Kind == "rename" || op.Kind == "mkdir" || op.Kind == "rmdir" {
				list = append(list, [3]string{op.Kind, rel(op.Path), rel(op.Path2)})
			}
		}
		if b, err := json.Marshal(map[string]any{"t": idx, "ops": list}); err == nil {
			os.WriteFile(fmt.Sprintf("%s.fsops.%d.json", outPrefix, idx), b, 0o644)
		}
	}
	// self-check of the reconstruction: the final image must equal the real directory
	final := img0.Clone()
	for _, op := range ops {
		if op.Kind != "mark" {
			if err := final.Apply(op); err != nil {
				return 0, 0, 0, fmt.Errorf("reconstruction: %w", err)
			}
		}
	}
	mismatch := ""
	filepath.Walk(root, func(p string, info os.FileInfo, err error) error {
		if err == nil && !info.IsDir() {
			b, _ := os.ReadFile(p)
			if string(final.Files[p]) != string(b) && mismatch == "" {
				mismatch = fmt.Sprintf("%s: reconstructed %d bytes, real %d bytes", p, len(final.Files[p]), len(b))
			}
		}
		return nil
	})
	for p := range final.Files {
		if _, err := os.Stat(p); err != nil && mismatch == "" {
			mismatch = p + ": in the reconstructed image but not on disk"
		}
	}
	if mismatch != "" {
		keep := filepath.Join(os.TempDir(), fmt.Sprintf("verif-strace-mismatch.%d.%d", os.Getpid(), idx))
		os.MkdirAll(keep, 0o755)
		copyFileTo(logf, filepath.Join(keep, "strace.log"))
		copyFileTo(scenFile, filepath.Join(keep, "scen.json"))
		copyFileTo(marks, filepath.Join(keep, "marks"))
		return 0, 0, 0, fmt.Errorf("image reconstruction differs from the real directory (%s); strace log %s", mismatch, logf)
	}

	// scenario ops with acknowledgements, in completion order
	tr.Emit("reset", core.Ev{"nk": len(c.Keys), "vlens": vlens, "imm": c.Imm, "mode": sc.Mode, "legacy": legacyKV != nil, "lkv": orEmpty(legacyKV)})
	results := map[int]string{}
	for _, op := range ops {
		if op.Kind == "mark" && op.Data[0] == 'E' {
			f := strings.SplitN(strings.TrimSpace(string(op.Data)), " ", 3)
			i, _ := strconv.Atoi(f[1])
			res, _ := strconv.Unquote(f[2])
			results[i] = res
			if i >= 0 {
				o := sc.Ops[i]
				tr.Emit("op", core.Ev{"idx": i, "op": o.Op, "k": o.K, "v": o.V, "r": res, "bits": o.Bits})
			} else if res != "" {
				tr.Emit("op", core.Ev{"idx": -1, "op": "open", "k": 0, "v": 0, "r": res, "bits": 0})
			}
		}
	}
	// crash points
	var points []crashPoint
	done, inflight, closed := -2, -2, false
	nfs := 0
	only := map[int]bool{}
	for _, i := range sc.OnlyOps {
		only[i] = true
	}
	rng := rand.New(rand.NewSource(sc.Seed + int64(idx)*7919))
	for i, op := range ops {
		if op.Kind == "mark" {
			f := strings.Fields(string(op.Data))
			n, _ := strconv.Atoi(f[1])
			switch f[0] {
			case "B":
				inflight, closed = n, false
			case "C":
				closed = true
			case "E":
				done, inflight, closed = n, -2, false
			}
			continue
		}
		nfs++
		if len(only) > 0 && !only[inflight] {
			continue
		}
		cp := crashPoint{at: i + 1, cut: -1, done: done, inflight: inflight, closed: closed}
		points = append(points, cp) // after this op
		if (op.Kind == "append" || op.Kind == "pwrite") && len(op.Data) > 1 {
			cuts := map[int]bool{}
			n := len(op.Data)
			if sc.AllTorn || n <= 48 {
				for j := 1; j < n; j++ {
					cuts[j] = true
				}
			} else {
				for _, j := range []int{1, 2, 3, 4, 5, 7, 8, 11, 12, 13, n - 1, n - 2, n - 3, n - 4, n - 5, n / 2} {
					if j > 0 && j < n {
						cuts[j] = true
					}
				}
				for k := 0; k < 8; k++ {
					cuts[1+rng.Intn(n-1)] = true
				}
			}
			for j := range cuts {
				points = append(points, crashPoint{at: i, cut: j, done: done, inflight: inflight, closed: closed})
			}
		}
	}
	if sc.FinalOnly && len(points) > 0 {
		best := -1
		for i, p := range points {
			if p.cut < 0 && (best < 0 || p.at >= points[best].at) {
				best = i
			}
		}
		if best >= 0 {
			points = []crashPoint{points[best]}
		}
	}
	if sc.MaxImgs > 0 && len(points) > sc.MaxImgs {
		rng.Shuffle(len(points), func(a, b int) { points[a], points[b] = points[b], points[a] })
		points = points[:sc.MaxImgs]
	}
	// group by `at` so images are built incrementally
	byAt := map[int][]crashPoint{}
	for _, p := range points {
		byAt[p.at] = append(byAt[p.at], p)
	}
	cur := img0.Clone()
	nimg, nslow := 0, 0
	contTr, err := core.NewTracer(fmt.Sprintf("%s.cont.%d.%d.ndjson", outPrefix, w, idx))
	if err != nil {
		return 0, 0, 0, err
	}
	defer contTr.Close()
	contN := 0
	for i := 0; i <= len(ops); i++ {
		for _, p := range byAt[i] {
			im := cur
			if p.cut >= 0 {
				im = cur.Clone()
				op := ops[i]
				op.Data = op.Data[:p.cut]
				im.Apply(op)
			}
			nimg++
			variants := []int{0}
			if sc.Mode == "rebucket" {
				variants = []int{0, 1} // new bit size, old bit size
			}
			for _, variant := range variants {
				t0 := time.Now()
				ev := recoverImage(base, root, im, r, sc, p, variant, results, contTr, &contN, idx)
				if time.Since(t0) > 3*time.Second {
					nslow++
				}
				ev["fsop"], ev["cut"], ev["done"], ev["closed"], ev["variant"] = p.at, p.cut, p.done, p.closed, variant
				// renames of the call in flight before / after this point (window of the index translation)
				rb, ra := 0, 0
				for j := p.at - 1; j >= 0 && !(ops[j].Kind == "mark" && ops[j].Data[0] == 'B'); j-- {
					if ops[j].Kind == "rename" {
						rb++
					}
				}
				for j := p.at; j < len(ops) && !(ops[j].Kind == "mark" && ops[j].Data[0] == 'E'); j++ {
					if ops[j].Kind == "rename" {
						ra++
					}
				}
				ev["renamesBefore"], ev["renamesAfter"] = rb, ra
				mk := 0
				for j := 0; j < p.at && j < len(ops); j++ {
					if ops[j].Kind == "create" && strings.HasSuffix(ops[j].Path, ".remapped") {
						mk++
					}
				}
				ev["remapMarkersBefore"] = mk
				li := p.at - 1
				if p.cut >= 0 {
					li = p.at
				}
				if li >= 0 && li < len(ops) {
					ev["fskind"], ev["fsfile"] = ops[li].Kind, filepath.Base(ops[li].Path)
				}
				if p.inflight >= 0 {
					o := sc.Ops[p.inflight]
					ev["inflight"] = map[string]any{"op": o.Op, "k": o.K, "v": o.V, "idx": p.inflight, "bits": o.Bits}
				} else {
					ev["inflight"] = map[string]any{"op": "none", "k": 0, "v": 0, "idx": p.inflight, "bits": 0}
				}
				tr.Emit("crashcase", ev)
			}
		}
		if i < len(ops) && ops[i].Kind != "mark" {
			cur = cur.Clone()
			cur.Apply(ops[i])
		}
	}
	return nimg, nfs, nslow, nil
}

func orEmpty(a []int) []int {
	if a == nil {
		return []int{}
	}
	return a
}

// recoverImage materialises one image, opens it with the real OpenStore, reads every key and
// runs the continuation (as a separate trace for StoreTrace / FsckTrace).
func recoverImage(base, root string, im *straceimg.Image, r *seqRun, sc *crashScen, p crashPoint, variant int, results map[int]string, contTr *core.Tracer, contN *int, scenIdx int) core.Ev {
	c := sc.Cfg
	d := filepath.Join(base, "img")
	os.RemoveAll(d)
	ev := core.Ev{"open": "", "obs": []int{}, "panic": "", "legacyLeft": []string{}}
	if err := im.Materialize(root, d); err != nil {
		ev["open"] = "harness: " + err.Error()
		return ev
	}
	defer os.RemoveAll(d)
	// configuration in force at the crash: bit size changes of completed reopen ops apply
	bits := c.Bits
	for i := 0; i <= p.done && i < len(sc.Ops); i++ {
		if sc.Ops[i].Op == "reopen" && sc.Ops[i].Bits != 0 && i >= 0 {
			bits = sc.Ops[i].Bits
		}
	}
	oldBits := bits
	if p.inflight >= 0 && sc.Ops[p.inflight].Op == "reopen" && sc.Ops[p.inflight].Bits != 0 && p.closed {
		bits = sc.Ops[p.inflight].Bits
	}
	if variant == 1 {
		bits = oldBits
	}
	ev["bits"] = bits
	obs := make([]int, len(r.keys))
	_, pan := guarded(func() error {
		st, err := openAt(d, r.primaryType(), c.Imm, bits, c.IL, c.PL)
		if err != nil {
			ev["open"] = err.Error()
			return nil
		}
		if sc.Mode == "upgrade" && r.primaryType() == store.MultihashPrimary {
			// a completed (resumed) upgrade leaves no legacy file behind
			left := []string{}
			for _, n := range []string{"data", "index"} {
				if fi, err := os.Stat(filepath.Join(d, n)); err == nil && !fi.IsDir() {
					left = append(left, n)
				}
			}
			ev["legacyLeft"] = left
		}
		for i, key := range r.keys {
			v, found, err := st.Get(key)
			switch {
			case err != nil:
				obs[i] = -3
			case !found:
				obs[i] = 0
			default:
				if id := r.valID(i+1, v); id != 0 {
					obs[i] = id
				} else {
					obs[i] = -2
				}
			}
		}
		st.Close()
		return nil
	})
	ev["panic"] = pan
	ev["obs"] = obs
	if pan != "" || ev["open"] != "" || len(sc.Cont) == 0 {
		return ev
	}
	// continuation on the recovered directory, judged by StoreTrace (+ FsckTrace): its map starts at obs
	init := make([]int, len(obs))
	for i, o := range obs {
		if o > 0 {
			init[i] = o
		}
	}
	cc := c
	cc.Bits, cc.Dir, cc.Init, cc.Proj, cc.Probe = bits, d, init, true, "all"
	rr := &seqRun{sc: &seqScen{Cfg: cc, Ops: sc.Cont}, tr: contTr}
	*contN++
	contTr.Begin(scenIdx*100000 + *contN)
	ev["cont"] = scenIdx*100000 + *contN
	if err := rr.run(base); err != nil {
		ev["open"] = "continuation: " + err.Error()
	}
	return ev
}

func copyFileTo(from, to string) {
	if b, err := os.ReadFile(from); err == nil {
		os.WriteFile(to, b, 0o644)
	}
}

var _ = context.Background
