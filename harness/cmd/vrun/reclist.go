package main

import (
	"strconv"
	"context"
	"encoding/json"
	"flag"
	"fmt"
	"os"
	"path/filepath"

	"github.com/ipld/go-storethehash/store/filecache"
	"github.com/ipld/go-storethehash/store/index"
	"github.com/ipld/go-storethehash/store/primary/inmemory"
	"github.com/ipld/go-storethehash/store/types"

	"verif/harness/internal/core"
)

// reclist (C08): drives a real index.Index over the in-memory primary with one
// bucket's worth of keys. After every operation it records the bucket's real
// record list and the result of Index.Get for every key of the scenario's key
// universe.

type rlOp struct {
	Op string `json:"op"`
	K  []int  `json:"k"`
}

type rlScen struct {
	Ops  []rlOp  `json:"ops"`
	Keys [][]int `json:"keys"` // key universe to probe after every step
	Rl   []struct {
		P []int `json:"p"`
		K []int `json:"k"`
	} `json:"rl"` // model's final list (conformance figure only)
	// index bit size (default 8). The model's bucket is fixed and its stored key is the key; the real key is
	// bits/8 fixed bytes + the model key, and for a bit size that is not a multiple of 8 the first key symbol (< 16)
	// is the HIGH nibble of the partly consumed byte, whose low nibble belongs to the bucket: all keys share the
	// bucket, and the stored keys are an order- and prefix-preserving image of the model keys.
	Bits int `json:"bits"`
	// Fill = j > 0: the index file-size limit is set to the exact length the index file has after the j-th flush of this
	// history (measured in a dry run), so that the NEXT flush finds the file exactly full
	Fill int `json:"fill"`
}

const rlBucketByte = 7

func init() { engines["reclist"] = runReclist }

func runReclist(args []string) error {
	fs := flag.NewFlagSet("reclist", flag.ExitOnError)
	o := core.ParseOpts(args, fs)
	scens, err := core.ReadScenarios(o.In)
	if err != nil {
		return err
	}
	var conform, nonconform int64
	res := make([]int8, len(scens))
	n, err := core.RunPool(o, scens, func(w int, dir string, tr *core.Tracer, idx int, raw json.RawMessage) error {
		var sc rlScen
		if err := json.Unmarshal(raw, &sc); err != nil {
			return err
		}
		ok, err := reclistOne(dir, tr, &sc)
		if ok {
			res[idx] = 1
		} else {
			res[idx] = -1
		}
		return err
	})
	for _, r := range res {
		if r == 1 {
			conform++
		} else if r == -1 {
			nonconform++
		}
	}
	core.Summary(map[string]any{"events": n, "scenarios": len(scens), "model_list_equal": conform, "model_list_differs": nonconform})
	return err
}

var rlFixed = []byte{rlBucketByte, 9, 3}

func rlKeyBits(k []int, bits int) []byte {
	key := append([]byte{}, rlFixed[:bits/8]...)
	kb := core.Bytes(k)
	if bits%8 != 0 {
		kb[0] = kb[0]<<4 | 5
	}
	return append(key, kb...)
}

// rlDecode maps a stored key back to model symbols
func rlDecode(p []byte, bits int) []byte {
	if bits%8 == 0 || len(p) == 0 || p[0]&0xf != 5 {
		return p
	}
	q := append([]byte{}, p...)
	q[0] >>= 4
	return q
}

func reclistOne(dir string, tr *core.Tracer, sc *rlScen) (bool, error) {
	limit := uint32(1024)
	if sc.Fill > 0 {
		_, sizes, err := reclistRun(dir, nil, sc, 1<<20)
		if err != nil {
			return false, err
		}
		if sc.Fill <= len(sizes) && sizes[sc.Fill-1] > 0 {
			limit = uint32(sizes[sc.Fill-1])
		}
	}
	ok, _, err := reclistRun(dir, tr, sc, limit)
	return ok, err
}

// reclistRun executes the history with the given index file-size limit; tr == nil is a dry run. It returns the length of
// the current index file after every flush op.
func reclistRun(dir string, tr *core.Tracer, sc *rlScen, limit uint32) (bool, []int64, error) {
	var sizes []int64
	d, err := os.MkdirTemp(dir, "rl")
	if err != nil {
		return false, nil, err
	}
	defer os.RemoveAll(d)
	bits := sc.Bits
	if bits == 0 {
		bits = 8
	}
	rlKey := func(k []int) []byte { return rlKeyBits(k, bits) }
	prim := inmemory.New(nil)
	fc := filecache.New(8)
	idx, err := index.Open(context.Background(), filepath.Join(d, "idx"), prim, uint8(bits), limit, 0, 0, fc)
	if err != nil {
		return false, nil, err
	}
	defer idx.Close()

	snapshot := func() (core.Ev, []index.Record, error) {
		recs, err := idx.VerifRecords(rlKey(sc.Keys[0]))
		if err != nil {
			return nil, nil, fmt.Errorf("VerifRecords: %w", err)
		}
		lst := make([]any, 0, len(recs))
		for _, r := range recs {
			lst = append(lst, map[string]any{"p": core.Ints(rlDecode(r.Key, bits)), "loc": int(r.Block.Offset)})
		}
		gets := make([]any, 0, len(sc.Keys))
		for _, k := range sc.Keys {
			blk, found, err := idx.Get(rlKey(k))
			g := map[string]any{"k": k, "found": found, "loc": int(blk.Offset), "err": ""}
			if err != nil {
				g["err"] = err.Error()
			}
			gets = append(gets, g)
		}
		return core.Ev{"rl": lst, "gets": gets}, recs, nil
	}

	emit := func(e string, ev core.Ev) {
		if tr != nil {
			tr.Emit(e, ev)
		}
	}
	emit("reset", core.Ev{"keys": sc.Keys})
	var last []index.Record
	for _, op := range sc.Ops {
		ev := core.Ev{"err": "", "loc": -1, "removed": false}
		switch op.Op {
		case "put", "upd":
			key := rlKey(op.K)
			blk, err := prim.Put(key, []byte{byte(len(*prim))})
			if err != nil {
				return false, nil, err
			}
			ev["loc"] = int(blk.Offset)
			ev["k"] = op.K
			if op.Op == "put" {
				err = idx.Put(key, blk)
			} else {
				err = idx.Update(key, blk)
			}
			if err != nil {
				ev["err"] = err.Error()
			}
		case "rem":
			ev["k"] = op.K
			removed, err := idx.Remove(rlKey(op.K))
			ev["removed"] = removed
			if err != nil {
				ev["err"] = err.Error()
			}
		case "flush":
			if _, err := idx.Flush(); err != nil {
				ev["err"] = err.Error()
			}
			var cur int64
			for n := 0; ; n++ {
				fi, err := os.Stat(filepath.Join(d, "idx") + "." + strconv.Itoa(n))
				if err != nil {
					break
				}
				cur = fi.Size()
			}
			sizes = append(sizes, cur)
		default:
			return false, nil, fmt.Errorf("unknown op %q", op.Op)
		}
		obs, recs, err := snapshot()
		if err != nil {
			ev["err"] = err.Error()
			obs = core.Ev{"rl": []any{}, "gets": []any{}}
		}
		last = recs
		ev["rl"], ev["gets"] = obs["rl"], obs["gets"]
		emit(op.Op, ev)
	}
	// model conformance figure: prefixes of the final list equal the model's
	if len(last) != len(sc.Rl) {
		return false, sizes, nil
	}
	for i, r := range last {
		if string(rlDecode(r.Key, bits)) != string(core.Bytes(sc.Rl[i].P)) {
			return false, sizes, nil
		}
		fk, _, err := prim.Get(types.Block{Offset: r.Block.Offset})
		if err != nil || string(fk) != string(rlKey(sc.Rl[i].K)) {
			return false, sizes, nil
		}
	}
	return true, sizes, nil
}
