package main

import (
	"bytes"
	"context"
	"crypto/sha1"
	"encoding/hex"
	"encoding/json"
	"errors"
	"flag"
	"fmt"
	"io"
	"os"
	"path/filepath"
	"sort"
	"sync/atomic"
	"time"

	"github.com/ipfs/go-cid"
	"github.com/ipld/go-storethehash/store"
	mhprimary "github.com/ipld/go-storethehash/store/primary/multihash"
	"github.com/ipld/go-storethehash/store/types"
	mh "github.com/multiformats/go-multihash"

	"verif/harness/internal/core"
	"verif/harness/internal/fsckread"
)

// seq: executes one sequential history (calls, flushes, GC cycles with
// deterministic "time limits", close/reopen in several ways, bit-size changes,
// refused opens) on a real store.Store and records every result, a probe of
// every key after every call, and (optionally) the projection of the files.

type seqCfg struct {
	Primary string   `json:"primary"` // "mh" | "cid"
	Bits    int      `json:"bits"`
	IL      int64    `json:"il"`
	PL      int64    `json:"pl"`
	Imm     bool     `json:"imm"`
	Keys    [][]int  `json:"keys"`
	Vals    []string `json:"vals"`
	Proj    bool     `json:"proj"`  // log file projections at quiescent points
	Sizes   bool     `json:"sizes"` // log storage sizes / directory listing after GC
	Cmp     bool     `json:"cmp"`   // 3-way bucket table comparison at reopen
	Probe   string   `json:"probe"` // "" / "all": probe every key after every call; "end": only after the last call and at quiescent points
	Init    []int    `json:"init"`  // contents the map starts with (continuations on an existing directory); value id per key, 0 = absent
	Dir     string   `json:"dir"`   // existing directory to run in (not removed)
}

type seqOp struct {
	Op       string `json:"op"`
	K        int    `json:"k"`
	V        int    `json:"v"`
	ScanFree bool   `json:"scanFree"`
	LowUse   int64  `json:"lowUse"`
	Deadline int    `json:"deadline"`
	Snap     string `json:"snap"`
	Bits     int    `json:"bits"`
	IL       int64  `json:"il"`
	PL       int64  `json:"pl"`
	WB       int    `json:"wb"` // openwrong: also ask for this index bit size
	N        int    `json:"n"`
	Mark     string `json:"mark"`
}

type seqScen struct {
	Cfg seqCfg  `json:"cfg"`
	Ops []seqOp `json:"ops"`
}

func init() { engines["seq"] = runSeq }

func runSeq(args []string) error {
	fs := flag.NewFlagSet("seq", flag.ExitOnError)
	o := core.ParseOpts(args, fs)
	scens, err := core.ReadScenarios(o.In)
	if err != nil {
		return err
	}
	n, err := core.RunPool(o, scens, func(w int, dir string, tr *core.Tracer, idx int, raw json.RawMessage) error {
		var sc seqScen
		if err := json.Unmarshal(raw, &sc); err != nil {
			return err
		}
		r := &seqRun{sc: &sc, tr: tr}
		return r.run(dir)
	})
	core.Summary(map[string]any{"events": n, "scenarios": len(scens), "projections": projStats.n, "proj_multi_index_files": projStats.multiIdx,
		"proj_multi_primary_files": projStats.multiPri, "proj_deleted_index_records": projStats.delIdx, "proj_deleted_primary_records": projStats.delPri,
		"proj_pending_freelist": projStats.pending, "proj_multi_entry_lists": projStats.multiEntry})
	return err
}

// countCtx is a context whose Err() reports DeadlineExceeded from the n-th call
// on: a deterministic stand-in for a GC time limit.
type countCtx struct {
	context.Context
	left *int32
}

func (c countCtx) Err() error {
	if atomic.AddInt32(c.left, -1) < 0 {
		return context.DeadlineExceeded
	}
	return nil
}

func deadlineCtx(n int) context.Context {
	if n <= 0 {
		return context.Background()
	}
	left := int32(n)
	return countCtx{context.Background(), &left}
}

type seqRun struct {
	sc   *seqScen
	tr   *core.Tracer
	dir  string
	st   *store.Store
	bits int
	il   int64
	pl   int64
	keys [][]byte // full keys as given to the store
	digs [][]byte
}

func valBytes(name string, k int) []byte {
	switch name {
	case "nil":
		return nil
	case "empty":
		return []byte{}
	}
	// "<letter><count>" or a literal: non-empty values carry the key number in their last byte
	var letter byte = name[0]
	n := len(name)
	if len(name) > 1 {
		if c, err := fmt.Sscanf(name[1:], "%d", &n); c != 1 || err != nil {
			n = len(name)
		}
	}
	b := bytes.Repeat([]byte{letter}, n)
	b[n-1] = byte('0' + k)
	return b
}

// valID maps bytes read for key k back to a value id (1-based), 0 if they are not
// a value this scenario could have written for k.
func (r *seqRun) valID(k int, b []byte) int {
	for i, name := range r.sc.Cfg.Vals {
		if bytes.Equal(b, valBytes(name, k)) {
			// "nil" and "empty" are the same content; report the first
			return i + 1
		}
	}
	return 0
}

func (r *seqRun) mkKeys() error {
	for _, d := range r.sc.Cfg.Keys {
		dig := core.Bytes(d)
		m, err := mh.Encode(dig, mh.SHA2_256)
		if err != nil {
			return err
		}
		r.digs = append(r.digs, dig)
		if r.sc.Cfg.Primary == "cid" {
			r.keys = append(r.keys, cid.NewCidV1(cid.Raw, m).Bytes())
		} else {
			r.keys = append(r.keys, m)
		}
	}
	return nil
}

func (r *seqRun) primaryType() string {
	if r.sc.Cfg.Primary == "cid" {
		return store.CIDPrimary
	}
	return store.MultihashPrimary
}

func (r *seqRun) paths(dir string) (string, string) {
	return filepath.Join(dir, "data"), filepath.Join(dir, "index")
}

func openAt(dir, ptype string, imm bool, bits int, il, pl int64) (*store.Store, error) {
	return openAtCtx(context.Background(), dir, ptype, imm, bits, il, pl)
}

func openAtCtx(ctx context.Context, dir, ptype string, imm bool, bits int, il, pl int64) (*store.Store, error) {
	return store.OpenStore(ctx, ptype, filepath.Join(dir, "data"), filepath.Join(dir, "index"), imm,
		store.IndexBitSize(uint8(bits)), store.IndexFileSize(uint32(il)), store.PrimaryFileSize(uint32(pl)),
		store.GCInterval(24*time.Hour), store.GCTimeLimit(0), store.SyncInterval(24*time.Hour), store.FileCacheSize(4))
}

func errStr(err error) string {
	if err == nil {
		return ""
	}
	return err.Error()
}

func openErrClass(err error) string {
	var e1 types.ErrIndexWrongBitSize
	var e2 types.ErrIndexWrongFileSize
	var e3 types.ErrPrimaryWrongFileSize
	switch {
	case err == nil:
		return ""
	case errors.As(err, &e2):
		return "wrong-index-file-size"
	case errors.As(err, &e3):
		return "wrong-primary-file-size"
	case errors.As(err, &e1):
		return "wrong-bit-size"
	}
	return "other:" + err.Error()
}

func (r *seqRun) probe() ([]any, string) {
	out := make([]any, 0, len(r.keys))
	firstErr := ""
	note := func(err error) int {
		if err != nil {
			if firstErr == "" {
				firstErr = err.Error()
			}
			return 1
		}
		return 0
	}
	for i, key := range r.keys {
		k := i + 1
		v, found, err := r.st.Get(key)
		e := note(err)
		vid := 0
		if found {
			vid = r.valID(k, v)
			if vid == 0 {
				vid = -2
			}
		}
		has, err := r.st.Has(key)
		e |= note(err)
		sz, sfound, err := r.st.GetSize(key)
		e |= note(err)
		out = append(out, []int{b2i(found), vid, b2i(has), b2i(sfound), int(sz), e})
	}
	return out, firstErr
}

func b2i(b bool) int {
	if b {
		return 1
	}
	return 0
}

func nonzero(bk []types.Position) [][2]int64 {
	out := [][2]int64{}
	for i, p := range bk {
		if p != 0 {
			out = append(out, [2]int64{int64(i), int64(p)})
		}
	}
	return out
}

func copyDir(src, dst string) error {
	if err := os.MkdirAll(dst, 0o755); err != nil {
		return err
	}
	ents, err := os.ReadDir(src)
	if err != nil {
		return err
	}
	for _, e := range ents {
		if e.IsDir() {
			if err := copyDir(filepath.Join(src, e.Name()), filepath.Join(dst, e.Name())); err != nil {
				return err
			}
			continue
		}
		b, err := os.ReadFile(filepath.Join(src, e.Name()))
		if err != nil {
			return err
		}
		if err := os.WriteFile(filepath.Join(dst, e.Name()), b, 0o644); err != nil {
			return err
		}
	}
	return nil
}

// dirDigest lists every file with size and content hash.
func dirDigest(dir string) map[string]any {
	out := map[string]any{}
	filepath.Walk(dir, func(p string, info os.FileInfo, err error) error {
		if err != nil || info.IsDir() {
			return nil
		}
		b, _ := os.ReadFile(p)
		h := sha1.Sum(b)
		rel, _ := filepath.Rel(dir, p)
		out[rel] = fmt.Sprintf("%d:%s", len(b), hex.EncodeToString(h[:8]))
		return nil
	})
	return out
}

func dirSizes(dir string) map[string]int64 {
	out := map[string]int64{}
	ents, _ := os.ReadDir(dir)
	for _, e := range ents {
		if info, err := e.Info(); err == nil && !e.IsDir() {
			out[e.Name()] = info.Size()
		}
	}
	return out
}

func sameDigest(a, b map[string]any) bool {
	if len(a) != len(b) {
		return false
	}
	for k, v := range a {
		if b[k] != v {
			return false
		}
	}
	return true
}

// projection statistics for the evidence file (non-vacuity of the Fsck rules)
var projStats struct {
	n, multiIdx, multiPri, delIdx, delPri, pending, multiEntry int64
}

func (r *seqRun) projection() any {
	p, err := fsckread.Read(r.dir, "index", r.dir, "data", r.sc.Cfg.Primary == "cid")
	if err != nil {
		return map[string]any{"readerr": err.Error()}
	}
	atomic.AddInt64(&projStats.n, 1)
	if len(p.IF) > 1 {
		atomic.AddInt64(&projStats.multiIdx, 1)
	}
	if len(p.PF) > 1 {
		atomic.AddInt64(&projStats.multiPri, 1)
	}
	if len(p.FL)+len(p.GC) > 0 {
		atomic.AddInt64(&projStats.pending, 1)
	}
	di, dp, me := false, false, false
	for _, f := range p.IF {
		for _, rec := range f.Recs {
			di = di || rec.Del
			me = me || len(rec.Ents) > 1
		}
	}
	for _, f := range p.PF {
		for _, rec := range f.Recs {
			dp = dp || rec.Del
		}
	}
	if di {
		atomic.AddInt64(&projStats.delIdx, 1)
	}
	if dp {
		atomic.AddInt64(&projStats.delPri, 1)
	}
	if me {
		atomic.AddInt64(&projStats.multiEntry, 1)
	}
	return p
}

func (r *seqRun) liveBuckets() [][2]int64 {
	return nonzero(r.st.Index().VerifBuckets())
}

// guarded runs f and converts a panic into an error string.
func guarded(f func() error) (err error, panicked string) {
	defer func() {
		if p := recover(); p != nil {
			panicked = fmt.Sprint(p)
		}
	}()
	return f(), ""
}

func (r *seqRun) run(base string) error {
	if r.sc.Cfg.Dir != "" {
		r.dir = r.sc.Cfg.Dir
	} else {
		d, err := os.MkdirTemp(base, "sq")
		if err != nil {
			return err
		}
		defer os.RemoveAll(d)
		r.dir = filepath.Join(d, "s")
		if err := os.MkdirAll(r.dir, 0o755); err != nil {
			return err
		}
	}
	if err := r.mkKeys(); err != nil {
		return err
	}
	c := r.sc.Cfg
	r.bits, r.il, r.pl = c.Bits, c.IL, c.PL
	vlens := make([]int, len(c.Vals))
	for i, v := range c.Vals {
		vlens[i] = len(valBytes(v, 1))
	}
	init := c.Init
	if init == nil {
		init = make([]int, len(c.Keys))
	}
	r.tr.Emit("reset", core.Ev{"nk": len(c.Keys), "vlens": vlens, "vals": c.Vals, "imm": c.Imm, "keys": c.Keys, "bits": c.Bits, "primary": c.Primary, "il": c.IL, "pl": c.PL, "init": init})
	var err error
	r.st, err = openAt(r.dir, r.primaryType(), c.Imm, r.bits, r.il, r.pl)
	if err != nil {
		if c.Dir != "" {
			r.tr.Emit("openfail", core.Ev{"err": err.Error()})
			return nil
		}
		return fmt.Errorf("initial open: %w", err)
	}
	defer func() {
		if r.st != nil {
			guarded(func() error { return r.st.Close() })
		}
	}()
	for opi, op := range r.sc.Ops {
		ev := core.Ev{"k": op.K, "v": op.V, "r": "", "found": false, "val": 0, "size": 0, "removed": false, "panic": ""}
		if r.st == nil {
			break // a failed reopen ends the history (the failure itself was logged)
		}
		var key []byte
		if op.K >= 1 && op.K <= len(r.keys) {
			key = r.keys[op.K-1]
		}
		quiescent := false
		_, pan := guarded(func() error {
			switch op.Op {
			case "put":
				ev["vlen"] = len(valBytes(c.Vals[op.V-1], op.K))
				err := r.st.Put(key, valBytes(c.Vals[op.V-1], op.K))
				if err == types.ErrKeyExists {
					ev["r"] = "exists"
				} else {
					ev["r"] = errStr(err)
				}
			case "get":
				v, found, err := r.st.Get(key)
				ev["r"], ev["found"] = errStr(err), found
				if found {
					if id := r.valID(op.K, v); id != 0 {
						ev["val"] = id
					} else {
						ev["val"] = -2
					}
				}
			case "has":
				found, err := r.st.Has(key)
				ev["r"], ev["found"] = errStr(err), found
			case "size":
				sz, found, err := r.st.GetSize(key)
				ev["r"], ev["found"], ev["size"] = errStr(err), found, int(sz)
			case "rem":
				removed, err := r.st.Remove(key)
				ev["r"], ev["removed"] = errStr(err), removed
			case "flush":
				ev["r"] = errStr(r.st.Flush())
				ev["mark"] = op.Mark
				quiescent = true
			case "iter":
				pairs := [][2]int{}
				it := r.st.NewIterator()
				for {
					k, v, err := it.Next()
					if err == io.EOF {
						break
					}
					if err != nil {
						ev["r"] = err.Error()
						break
					}
					ki := 0
					for i, full := range r.keys {
						if bytes.Equal(full, k) {
							ki = i + 1
						}
					}
					vi := -2
					if ki != 0 {
						if id := r.valID(ki, v); id != 0 {
							vi = id
						}
					}
					pairs = append(pairs, [2]int{ki, vi})
				}
				sort.Slice(pairs, func(i, j int) bool {
					if pairs[i][0] != pairs[j][0] {
						return pairs[i][0] < pairs[j][0]
					}
					return pairs[i][1] < pairs[j][1]
				})
				ev["pairs"] = pairs
				quiescent = true
			case "idxgc":
				ev["scanFree"], ev["deadline"] = op.ScanFree, op.Deadline
				recl, emptied, err := r.st.Index().VerifGC(deadlineCtx(op.Deadline), op.ScanFree)
				ev["gcerr"], ev["reclaimed"], ev["emptied"] = errStr(err), recl, emptied
				quiescent = true
			case "prigc":
				ev["lowUse"], ev["deadline"] = op.LowUse, op.Deadline
				mp, ok := r.st.Primary().(*mhprimary.MultihashPrimary)
				if !ok {
					ev["gcerr"] = "no primary gc for this primary type"
					return nil
				}
				recl, err := mp.GC(deadlineCtx(op.Deadline), op.LowUse)
				ev["gcerr"], ev["reclaimed"] = errStr(err), recl
				quiescent = true
			case "gcfix":
				// n rounds of (primary GC, index GC, flush) on an otherwise idle store; after every
				// round the directory is fingerprinted (names, sizes, content hashes, newest mtime)
				rounds := []any{}
				mp, _ := r.st.Primary().(*mhprimary.MultihashPrimary)
				for i := 0; i < op.N; i++ {
					if mp != nil {
						mp.GC(context.Background(), op.LowUse)
					}
					r.st.Index().VerifGC(context.Background(), op.ScanFree)
					r.st.Flush()
					dg := dirDigest(r.dir)
					names := make([]string, 0, len(dg))
					for k := range dg {
						names = append(names, k)
					}
					sort.Strings(names)
					h := sha1.New()
					var newest int64
					for _, k := range names {
						fmt.Fprintf(h, "%s=%v;", k, dg[k])
						if k == "index.free" {
							continue // recreated by every hand-over (see DESIGN.md C11)
						}
						if fi, err := os.Stat(filepath.Join(r.dir, k)); err == nil && fi.ModTime().UnixNano() > newest {
							newest = fi.ModTime().UnixNano()
						}
					}
					rounds = append(rounds, map[string]any{"dg": hex.EncodeToString(h.Sum(nil)[:8]), "mt": fmt.Sprint(newest)})
					time.Sleep(2 * time.Millisecond)
				}
				ev["rounds"] = rounds
				quiescent = true
			case "reopen", "openwrong":
				r.reopen(op, ev)
				quiescent = true
			default:
				ev["r"] = "harness: unknown op " + op.Op
			}
			return nil
		})
		ev["panic"] = pan
		if r.st != nil && pan == "" && (c.Probe != "end" || opi == len(r.sc.Ops)-1 || op.Op == "reopen" || op.Op == "openwrong" || op.Op == "idxgc" || op.Op == "prigc") {
			pr, perr := r.probe()
			ev["pr"], ev["prerr"] = pr, perr
		} else {
			ev["pr"], ev["prerr"] = []any{}, ""
		}
		if c.Sizes && r.st != nil && pan == "" {
			ss, err := r.st.StorageSize()
			ev["ss"], ev["sserr"] = ss, errStr(err)
		}
		if c.Proj && quiescent && r.st != nil && pan == "" {
			ev["st"] = r.projection()
			ev["bk"] = r.liveBuckets()
		}
		r.tr.Emit(op.Op, ev)
		if pan != "" {
			// the store object is in an unknown state after a panic
			r.st = nil
		}
	}
	return nil
}

func (r *seqRun) reopen(op seqOp, ev core.Ev) {
	c := r.sc.Cfg
	for _, f := range []string{"cerr", "cerr2", "oerr", "werr", "want", "open_snap", "open_scan"} {
		ev[f] = ""
	}
	ev["cmp"], ev["dirsame"], ev["bk_snap"], ev["bk_scan"], ev["bk_live"], ev["bits"] = false, true, [][2]int64{}, [][2]int64{}, [][2]int64{}, r.bits
	bkLive := r.liveBuckets()
	cerr := r.st.Close()
	ev["cerr"] = errStr(cerr)
	ev["cerr2"] = errStr(r.st.Close()) // Close may be called repeatedly
	r.st = nil
	ev["bk_live"] = bkLive
	ev["cmp"] = false
	ev["oerr"], ev["dirsame"], ev["werr"] = "", true, ""
	if c.Cmp && r.bits <= 16 {
		// both recovery paths on copies of the closed directory
		ev["cmp"] = true
		for _, mode := range []string{"snap", "scan"} {
			cp := r.dir + "." + mode
			os.RemoveAll(cp)
			if err := copyDir(r.dir, cp); err != nil {
				ev["bk_"+mode], ev["open_"+mode] = [][2]int64{}, "harness: "+err.Error()
				continue
			}
			if mode == "scan" {
				os.Remove(filepath.Join(cp, "index.buckets"))
			}
			st, err := openAt(cp, r.primaryType(), c.Imm, r.bits, r.il, r.pl)
			ev["open_"+mode] = errStr(err)
			if err == nil {
				ev["bk_"+mode] = nonzero(st.Index().VerifBuckets())
				st.Close()
			} else {
				ev["bk_"+mode] = [][2]int64{}
			}
			os.RemoveAll(cp)
		}
	}
	ev["snap"] = op.Snap
	switch op.Snap {
	case "drop":
		os.Remove(filepath.Join(r.dir, "index.buckets"))
	case "bad":
		if b, err := os.ReadFile(filepath.Join(r.dir, "index.buckets")); err == nil && len(b) > 8 {
			os.WriteFile(filepath.Join(r.dir, "index.buckets"), b[:len(b)-8], 0o644)
		}
	}
	if op.Op == "openwrong" {
		// an open with a different file-size limit must be refused with the specific
		// error and must leave the directory untouched
		before := dirDigest(r.dir)
		il, pl := r.il, r.pl
		if op.IL != 0 {
			il = op.IL
		}
		if op.PL != 0 {
			pl = op.PL
		}
		wbits := r.bits
		if op.WB != 0 {
			// the wrong limit comes together with another index bit size: still to be refused
			wbits = op.WB
			if wbits == r.bits {
				wbits++
			}
		}
		st, err := openAt(r.dir, r.primaryType(), c.Imm, wbits, il, pl)
		ev["werr"] = openErrClass(err)
		if err == nil {
			ev["werr"] = "opened"
			st.Close()
		}
		ev["dirsame"] = sameDigest(before, dirDigest(r.dir))
		ev["want"] = "wrong-index-file-size"
		if op.IL == 0 {
			ev["want"] = "wrong-primary-file-size"
		}
	}
	bits := r.bits
	if op.Bits != 0 {
		bits = op.Bits
	}
	ev["bits"] = bits
	st, err := openAt(r.dir, r.primaryType(), c.Imm, bits, r.il, r.pl)
	ev["oerr"] = errStr(err)
	if err == nil {
		r.st, r.bits = st, bits
	}
}
