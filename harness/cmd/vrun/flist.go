package main

import (
	"encoding/binary"
	"encoding/json"
	"flag"
	"os"
	"path/filepath"
	"strconv"
	"sync"
	"sync/atomic"
	"time"

	"github.com/ipld/go-storethehash/store/freelist"
	"github.com/ipld/go-storethehash/store/types"

	"verif/harness/internal/core"
	"verif/harness/internal/sched"
)

// flist (C13, component level): replays schedules of FreeList.tla on a real
// freelist.FreeList. Writers call Put, the flusher calls Flush, the collector
// takes the file over with ToGC, reads the .gc file and removes it, exactly as
// processFreeList does. A schedule is a sequence of thread names; each step
// runs that thread from one yield point to the next (yield points inside the
// library: fl.flush.swapped, fl.togc.locked, fl.togc.afterRename; between the
// calls the harness yields itself). A thread that cannot proceed because
// another one holds the lock reports "blocked" and continues on its own when
// the lock is released. After the schedule everything runs to completion, a
// final Flush and a final hand-over empty the freelist, and every entry that
// was presented to the collector is logged.

type flScen struct {
	Progs    [][]int  `json:"progs"`
	NFlush   int      `json:"nflush"`
	NGC      int      `json:"ngc"`
	Schedule []string `json:"schedule"`
}

func init() { engines["flist"] = runFlist }

func runFlist(args []string) error {
	fs := flag.NewFlagSet("flist", flag.ExitOnError)
	o := core.ParseOpts(args, fs)
	scens, err := core.ReadScenarios(o.In)
	if err != nil {
		return err
	}
	var blocked int64
	n, err := core.RunPool(o, scens, func(w int, dir string, tr *core.Tracer, idx int, raw json.RawMessage) error {
		var sc flScen
		if err := json.Unmarshal(raw, &sc); err != nil {
			return err
		}
		b, err := flistOne(dir, tr, &sc)
		atomic.AddInt64(&blocked, int64(b))
		return err
	})
	core.Summary(map[string]any{"events": n, "scenarios": len(scens), "steps_blocked": blocked})
	return err
}

func flEntries(b []byte) []int {
	out := []int{}
	for ; len(b) >= 12; b = b[12:] {
		out = append(out, int(binary.LittleEndian.Uint32(b[8:])))
	}
	if len(b) != 0 {
		out = append(out, -1) // a partial entry
	}
	return out
}

func flistOne(dir string, tr *core.Tracer, sc *flScen) (int, error) {
	d, err := os.MkdirTemp(dir, "fl")
	if err != nil {
		return 0, err
	}
	defer os.RemoveAll(d)
	path := filepath.Join(d, "store.free")
	fl, err := freelist.Open(path)
	if err != nil {
		return 0, err
	}
	var mu sync.Mutex
	var over atomic.Bool
	defer over.Store(true)
	emit := func(e string, kv core.Ev) {
		mu.Lock()
		if !over.Load() {
			tr.Emit(e, kv)
		}
		mu.Unlock()
	}
	emit("reset", core.Ev{"progs": sc.Progs})
	errStr := func(err error) string {
		if err != nil {
			return err.Error()
		}
		return ""
	}
	cycle := func(yield func(string)) {
		p, err := fl.ToGC()
		emit("togc", core.Ev{"err": errStr(err)})
		if err != nil {
			return
		}
		yield("g.got")
		b, err := os.ReadFile(p)
		ents := flEntries(b)
		yield("g.read")
		rerr := os.Remove(p)
		emit("present", core.Ev{"ents": ents, "err": errStr(err) + errStr(rerr)})
	}

	s := sched.New()
	threads := map[string]*sched.Thread{}
	for i, prog := range sc.Progs {
		name := "w" + strconv.Itoa(i+1)
		prog := prog
		threads[name] = s.Go(name, func() {
			for j, e := range prog {
				if j > 0 {
					s.Yield("w.next")
				}
				emit("putb", core.Ev{"en": e, "err": ""}) // invocation: from here on the entry may legitimately show up anywhere
				err := fl.Put(types.Block{Offset: types.Position(100 * e), Size: types.Size(e)})
				emit("put", core.Ev{"en": e, "err": errStr(err)})
			}
		})
	}
	threads["f"] = s.Go("f", func() {
		for i := 0; i < sc.NFlush; i++ {
			if i > 0 {
				s.Yield("f.next")
			}
			_, err := fl.Flush()
			emit("flush", core.Ev{"err": errStr(err)})
		}
	})
	threads["g"] = s.Go("g", func() {
		for i := 0; i < sc.NGC; i++ {
			if i > 0 {
				s.Yield("g.next")
			}
			cycle(s.Yield)
		}
	})
	blocked := 0
	for _, th := range sc.Schedule {
		t := threads[th]
		if t == nil {
			continue
		}
		if t.Step(40*time.Millisecond) == "blocked" {
			blocked++
		}
	}
	s.Free()
	deadline := time.Now().Add(5 * time.Second)
	stuck := []string{}
	for time.Now().Before(deadline) {
		stuck = stuck[:0]
		for n, t := range threads {
			if !t.IsDone() {
				stuck = append(stuck, n)
			}
		}
		if len(stuck) == 0 {
			break
		}
		time.Sleep(time.Millisecond)
	}
	if len(stuck) == 0 {
		// drain: whatever is still pooled or in the file is flushed and handed over
		_, err := fl.Flush()
		emit("flush", core.Ev{"err": errStr(err)})
		cycle(func(string) {})
		cerr := fl.Close()
		rest, _ := os.ReadFile(path)
		gcb, _ := os.ReadFile(path + ".gc")
		emit("end", core.Ev{"stuck": stuck, "file": flEntries(rest), "gc": flEntries(gcb), "err": errStr(cerr)})
	} else {
		emit("end", core.Ev{"stuck": stuck, "file": []int{}, "gc": []int{}, "err": ""})
	}
	return blocked, nil
}
