package main

import (
	"bytes"
	"context"
	"crypto/sha1"
	"encoding/hex"
	"encoding/json"
	"errors"
	"flag"
	"fmt"
	"os"
	"path/filepath"
	"runtime"
	"runtime/pprof"
	"sort"
	"strings"
	"sync"
	"sync/atomic"
	"time"

	"github.com/ipld/go-storethehash/store"
	"github.com/ipld/go-storethehash/store/types"
	mh "github.com/multiformats/go-multihash"

	"verif/harness/internal/core"
	"verif/harness/internal/sched"
)

// life (C17): a real store runs with its own flusher and both collectors at 1 ms
// intervals. One background goroutine of the library is parked at a chosen yield
// point (global hook), Close is issued, the goroutine is released, and the
// process is observed when Close returns and again 150 ms later: descriptors on
// files of the store directory, goroutines with a frame in the module, and a
// fingerprint of the directory. Also: failing opens and open/close repetition.

type lifeScen struct {
	Kind   string `json:"kind"`   // "park" | "failopen" | "cycles"
	Point  string `json:"point"`  // yield point to park a background goroutine at ("" = none)
	Fail   string `json:"fail"`   // failopen: idxsize | prisize | idxheader | priheader | ptype
	Cycles int    `json:"cycles"`
	Seed   int64  `json:"seed"`
	Nth    int    `json:"nth"` // park at the n-th time the point is reached
	PL     uint32 `json:"pl"`  // primary file size (default 64); larger files + the "reloc" workload make low-use relocation happen
	WL     string `json:"wl"`
}

func init() { engines["life"] = runLife }

func runLife(args []string) error {
	fs := flag.NewFlagSet("life", flag.ExitOnError)
	o := core.ParseOpts(args, fs)
	o.Workers = 1 // the global hook serves one scenario at a time
	scens, err := core.ReadScenarios(o.In)
	if err != nil {
		return err
	}
	var parked int64
	n, err := core.RunPool(o, scens, func(w int, dir string, tr *core.Tracer, idx int, raw json.RawMessage) error {
		var sc lifeScen
		if err := json.Unmarshal(raw, &sc); err != nil {
			return err
		}
		p, err := lifeOne(dir, tr, &sc)
		if p {
			atomic.AddInt64(&parked, 1)
		}
		return err
	})
	core.Summary(map[string]any{"events": n, "scenarios": len(scens), "parked": parked})
	return err
}

func moduleGoroutines() (int, []string) {
	var buf bytes.Buffer
	pprof.Lookup("goroutine").WriteTo(&buf, 2)
	n := 0
	var sample []string
	for _, g := range strings.Split(buf.String(), "\n\n") {
		if strings.Contains(g, "go-storethehash/store") && !strings.Contains(g, "verif/harness") {
			n++
			if len(sample) < 3 {
				lines := strings.Split(g, "\n")
				fn := ""
				for _, l := range lines[1:] {
					if strings.Contains(l, "go-storethehash") {
						fn = strings.TrimSpace(l)
						break
					}
				}
				sample = append(sample, fn)
			}
		}
	}
	return n, sample
}

func fdsUnder(dir string) []string {
	ents, _ := os.ReadDir("/proc/self/fd")
	var out []string
	for _, e := range ents {
		t, err := os.Readlink("/proc/self/fd/" + e.Name())
		if err == nil && strings.HasPrefix(strings.TrimSuffix(t, " (deleted)"), dir+"/") {
			out = append(out, filepath.Base(t))
		}
	}
	sort.Strings(out)
	return out
}

func dirPrint(dir string) string {
	h := sha1.New()
	var names []string
	filepath.Walk(dir, func(p string, info os.FileInfo, err error) error {
		if err == nil && !info.IsDir() {
			names = append(names, p)
		}
		return nil
	})
	sort.Strings(names)
	for _, p := range names {
		b, _ := os.ReadFile(p)
		fi, err := os.Stat(p)
		mt := int64(0)
		if err == nil {
			mt = fi.ModTime().UnixNano()
		}
		fmt.Fprintf(h, "%s|%d|%x|%d;", p, len(b), sha1.Sum(b), mt)
	}
	return hex.EncodeToString(h.Sum(nil)[:10])
}

func lifeKey(i int) []byte {
	m, _ := mh.Encode([]byte{byte(60 + i%3), 7, 7, byte(i % 5), 9, byte(i), 1, 2}, mh.SHA2_256)
	return m
}

func lifeOpen(d string, il, pl uint32, ptype string) (*store.Store, error) {
	return lifeOpenBits(d, 8, il, pl, ptype)
}

func lifeOpenBits(d string, bits uint8, il, pl uint32, ptype string) (*store.Store, error) {
	return store.OpenStore(context.Background(), ptype, filepath.Join(d, "data"), filepath.Join(d, "index"), false,
		store.IndexBitSize(bits), store.IndexFileSize(il), store.PrimaryFileSize(pl),
		store.GCInterval(time.Millisecond), store.GCTimeLimit(50*time.Millisecond), store.SyncInterval(time.Millisecond), store.FileCacheSize(4))
}

func lifeWorkload(st *store.Store, seed int64, n int) map[int]int {
	kv := map[int]int{}
	for i := 0; i < n; i++ {
		k := int((seed*31 + int64(i)*7) % 24)
		if i%7 == 3 {
			st.Remove(lifeKey(k))
			delete(kv, k)
		} else {
			v := i + 1
			if st.Put(lifeKey(k), []byte(fmt.Sprintf("v%05d-%s", v, strings.Repeat("z", k%9)))) == nil {
				kv[k] = v
			}
		}
		if i%5 == 0 {
			st.Flush()
		}
		if i%16 == 0 {
			time.Sleep(time.Millisecond)
		}
	}
	return kv
}

func lifeOne(dir string, tr *core.Tracer, sc *lifeScen) (bool, error) {
	d, err := os.MkdirTemp(dir, "lf")
	if err != nil {
		return false, err
	}
	defer os.RemoveAll(d)
	defer sched.SetGlobal(nil)
	// the harness's own goroutines pass yield points too (its Flush calls): give them a handler of
	// their own so that the global handler only ever sees the library's background goroutines
	defer sched.OnPoint(func(string) {})()
	runtime.GC()
	time.Sleep(20 * time.Millisecond)
	base, _ := moduleGoroutines()
	tr.Emit("reset", core.Ev{"kind": sc.Kind, "point": sc.Point, "fail": sc.Fail, "base_goroutines": base, "base_fds": len(fdsUnder(d))})
	observe := func(e string, extra core.Ev) {
		g, sample := moduleGoroutines()
		fds := fdsUnder(d)
		if fds == nil {
			fds = []string{}
		}
		if sample == nil {
			sample = []string{}
		}
		ev := core.Ev{"goroutines": g - base, "gsample": sample, "fds": fds, "dir": dirPrint(d)}
		for k, v := range extra {
			ev[k] = v
		}
		tr.Emit(e, ev)
	}
	switch sc.Kind {
	case "park":
		pl := sc.PL
		if pl == 0 {
			pl = 64
		}
		st, err := lifeOpen(d, 64, pl, store.MultihashPrimary)
		if err != nil {
			return false, err
		}
		st.Start()
		var mu sync.Mutex
		parkedCh := make(chan struct{})
		release := make(chan struct{})
		seen, parked := 0, false
		kv := lifeWorkload(st, sc.Seed, 120)
		if sc.WL == "reloc" {
			// leave old files that are mostly free but keep one or two live records each
			for round := 0; round < 3; round++ {
				for k := 0; k < 24; k++ {
					if (k+round)%9 == 0 {
						continue
					}
					v := 5000 + round*100 + k
					if st.Put(lifeKey(k), []byte(fmt.Sprintf("v%05d-%s", v, strings.Repeat("z", k%9)))) == nil {
						kv[k] = v
					}
				}
				st.Flush()
			}
		}
		if sc.Point != "" {
			sched.SetGlobal(func(p string) {
				if p != sc.Point {
					return
				}
				mu.Lock()
				seen++
				mine := !parked && seen >= sc.Nth
				if mine {
					parked = true
				}
				mu.Unlock()
				if mine {
					close(parkedCh)
					<-release
				}
			})
		}
		didPark := false
		uncertain := -1
		if sc.Point != "" {
			// keep producing work for the collectors, in a goroutine of its own (a call can block on a
			// lock the parked goroutine holds); only calls acknowledged before the parking count
			var wmu sync.Mutex
			stopW := make(chan struct{})
			wdone := make(chan struct{})
			go func() {
				defer close(wdone)
				defer sched.OnPoint(func(string) {})()
				for i := 0; ; i++ {
					select {
					case <-stopW:
						return
					default:
					}
					k := int((sc.Seed*13 + int64(i)*5) % 24)
					v := 1000 + i
					wmu.Lock()
					uncertain = k
					wmu.Unlock()
					var err error
					if i%6 == 5 {
						_, err = st.Remove(lifeKey(k))
					} else {
						err = st.Put(lifeKey(k), []byte(fmt.Sprintf("v%05d-%s", v, strings.Repeat("z", k%9))))
					}
					if i%4 == 0 {
						st.Flush()
					}
					select {
					case <-stopW:
						return // completed after the parking: its acknowledgement does not count, the key stays uncertain
					default:
					}
					wmu.Lock()
					if err == nil {
						if i%6 == 5 {
							delete(kv, k)
						} else {
							kv[k] = v
						}
					}
					uncertain = -1
					wmu.Unlock()
					if i%8 == 0 {
						time.Sleep(time.Millisecond)
					}
				}
			}()
			select {
			case <-parkedCh:
				didPark = true
			case <-time.After(1500 * time.Millisecond):
			}
			close(stopW)
			if !didPark {
				<-wdone
			}
			wmu.Lock()
			if uncertain >= 0 {
				delete(kv, uncertain)
			}
			unc := uncertain
			wmu.Unlock()
			uncertain = unc
			defer func() { <-wdone }()
		}
		closed := make(chan error, 1)
		go func() {
			defer sched.OnPoint(func(string) {})()
			closed <- st.Close()
		}()
		time.Sleep(30 * time.Millisecond)
		early := false
		select {
		case e := <-closed:
			early = true // Close returned although a background goroutine is parked mid-cycle
			closed <- e
		default:
		}
		if early && didPark {
			observe("close-returned-while-parked", nil)
		}
		sched.SetGlobal(nil)
		if sc.Point != "" {
			mu.Lock()
			if !parked {
				parked = true // nobody parks any more
			}
			mu.Unlock()
			close(release)
		}
		var cerr error
		select {
		case cerr = <-closed:
		case <-time.After(8 * time.Second):
			observe("close-hangs", nil)
			return didPark, nil
		}
		observe("closed", core.Ev{"cerr": errStr(cerr), "parked": didPark, "early": early})
		time.Sleep(150 * time.Millisecond)
		observe("later", nil)
		// reopen (its collectors run at once, 1 ms interval): contents intact, then close again
		st2, err := lifeOpen(d, 64, pl, store.MultihashPrimary)
		ok := err == nil
		wrong := 0
		if ok {
			time.Sleep(60 * time.Millisecond)
			for k := 0; k < 24; k++ {
				v, found, err := st2.Get(lifeKey(k))
				want, has := kv[k]
				if k == uncertain {
					continue
				}
				if err != nil || found != has || (found && !strings.HasPrefix(string(v), fmt.Sprintf("v%05d-", want))) {
					wrong++
				}
			}
			st2.Close()
		}
		time.Sleep(50 * time.Millisecond)
		observe("reopened", core.Ev{"ok": ok, "oerr": errStr(err), "wrong": wrong})
		return didPark, nil
	case "failopen":
		st, err := lifeOpen(d, 64, 64, store.MultihashPrimary)
		if err != nil {
			return false, err
		}
		lifeWorkload(st, sc.Seed, 60)
		st.Close()
		time.Sleep(30 * time.Millisecond)
		before := dirPrint(d)
		var oerr error
		var st2 *store.Store
		switch sc.Fail {
		case "idxsize":
			st2, oerr = lifeOpen(d, 128, 64, store.MultihashPrimary)
		case "prisize":
			st2, oerr = lifeOpen(d, 64, 128, store.MultihashPrimary)
		case "ptype":
			st2, oerr = lifeOpen(d, 64, 64, "no-such-primary")
		case "bitsandsize":
			// another bit size AND another index file-size limit: the translation that the bit size asks for fails
			st2, oerr = lifeOpenBits(d, 12, 128, 64, store.MultihashPrimary)
		case "bitsandtrunc":
			// another bit size over a primary that lost its tail: the translation cannot read the keys it needs
			if fis, _ := filepath.Glob(filepath.Join(d, "data.*")); len(fis) > 0 {
				for _, f := range fis {
					if fi, err := os.Stat(f); err == nil && !strings.HasSuffix(f, ".info") && fi.Size() > 8 {
						os.Truncate(f, fi.Size()/2)
					}
				}
			}
			before = dirPrint(d)
			st2, oerr = lifeOpenBits(d, 12, 64, 64, store.MultihashPrimary)
		case "idxheader":
			os.WriteFile(filepath.Join(d, "index.info"), []byte("{not json"), 0o644)
			before = dirPrint(d)
			st2, oerr = lifeOpen(d, 64, 64, store.MultihashPrimary)
		case "priheader":
			os.WriteFile(filepath.Join(d, "data.info"), []byte("{not json"), 0o644)
			before = dirPrint(d)
			st2, oerr = lifeOpen(d, 64, 64, store.MultihashPrimary)
		}
		if st2 != nil {
			st2.Close()
		}
		var e1 types.ErrIndexWrongFileSize
		var e2 types.ErrPrimaryWrongFileSize
		class := "other"
		switch {
		case oerr == nil:
			class = "opened"
		case errors.As(oerr, &e1):
			class = "wrong-index-file-size"
		case errors.As(oerr, &e2):
			class = "wrong-primary-file-size"
		}
		time.Sleep(80 * time.Millisecond)
		observe("openfailed", core.Ev{"class": class, "oerr": errStr(oerr), "same": before == dirPrint(d)})
		return false, nil
	case "cycles":
		for i := 0; i < sc.Cycles; i++ {
			st, err := lifeOpen(d, 64, 64, store.MultihashPrimary)
			if err != nil {
				observe("closed", core.Ev{"cerr": "open: " + err.Error(), "parked": false, "early": false})
				return false, nil
			}
			st.Start()
			lifeWorkload(st, sc.Seed+int64(i), 25)
			if err := st.Close(); err != nil {
				observe("closed", core.Ev{"cerr": err.Error(), "parked": false, "early": false})
				return false, nil
			}
		}
		time.Sleep(150 * time.Millisecond)
		observe("later", nil)
		return false, nil
	}
	return false, fmt.Errorf("unknown kind %q", sc.Kind)
}
