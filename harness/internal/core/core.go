// Package core holds the plumbing shared by all harness engines: scenario
// input, per-worker ndjson trace output, worker pool, summary line.
package core

import (
	"bufio"
	"bytes"
	"encoding/json"
	"flag"
	"fmt"
	"os"
	"path/filepath"
	"sync"
	"sync/atomic"
	"time"
)

// ScenarioTimeout bounds one scenario; a sequential scenario normally takes
// milliseconds, so hitting it means a call did not return.
var ScenarioTimeout = 25 * time.Second

// Opts are the common command-line options of every engine.
type Opts struct {
	In      string
	Out     string
	Workers int
	Dir     string
	Seed    int64
	Args    []string
}

func ParseOpts(args []string, fs *flag.FlagSet) *Opts {
	o := &Opts{}
	fs.StringVar(&o.In, "in", "", "scenario file (ndjson)")
	fs.StringVar(&o.Out, "out", "trace", "trace file prefix")
	fs.IntVar(&o.Workers, "workers", 4, "parallel workers")
	fs.StringVar(&o.Dir, "dir", os.TempDir(), "scratch directory")
	fs.Int64Var(&o.Seed, "seed", 1, "seed")
	fs.Init(fs.Name(), flag.ContinueOnError)
	if err := fs.Parse(args); err != nil {
		os.Exit(64)
	}
	o.Args = fs.Args()
	return o
}

// Ev is one trace event. Keys: t (trace number), i (sequence in trace), e (event).
type Ev map[string]any

// Tracer writes the events of one worker.
type Tracer struct {
	mu  sync.Mutex
	w   *bufio.Writer
	f   *os.File
	enc *json.Encoder
	t   int
	i   int
	N   int64
}

func NewTracer(path string) (*Tracer, error) {
	f, err := os.Create(path)
	if err != nil {
		return nil, err
	}
	w := bufio.NewWriterSize(f, 1<<20)
	return &Tracer{w: w, f: f, enc: json.NewEncoder(w)}, nil
}

// Begin starts trace number t.
func (tr *Tracer) Begin(t int) {
	tr.mu.Lock()
	tr.t, tr.i = t, 0
	tr.mu.Unlock()
}

// Emit writes one event.
func (tr *Tracer) Emit(e string, kv Ev) {
	tr.mu.Lock()
	defer tr.mu.Unlock()
	tr.i++
	if kv == nil {
		kv = Ev{}
	}
	kv["t"], kv["i"], kv["e"] = tr.t, tr.i, e
	if err := tr.enc.Encode(kv); err != nil {
		panic(err)
	}
	tr.N++
}

func (tr *Tracer) Close() error {
	if err := tr.w.Flush(); err != nil {
		return err
	}
	return tr.f.Close()
}

// ReadScenarios loads an ndjson file into raw messages.
func ReadScenarios(path string) ([]json.RawMessage, error) {
	f, err := os.Open(path)
	if err != nil {
		return nil, err
	}
	defer f.Close()
	var out []json.RawMessage
	sc := bufio.NewScanner(f)
	sc.Buffer(make([]byte, 1<<20), 1<<28)
	for sc.Scan() {
		b := sc.Bytes()
		if len(b) == 0 {
			continue
		}
		out = append(out, append(json.RawMessage(nil), b...))
	}
	return out, sc.Err()
}

// RunPool runs fn(worker, tracer, scenario index, raw scenario) over all scenarios
// with o.Workers workers; worker w writes <out>.<w>.ndjson and gets its own
// scratch directory.
func RunPool(o *Opts, scens []json.RawMessage, fn func(w int, dir string, tr *Tracer, idx int, raw json.RawMessage) error) (int64, error) {
	var next int64 = -1
	var wg sync.WaitGroup
	var firstErr atomic.Value
	var total int64
	for w := 0; w < o.Workers; w++ {
		wg.Add(1)
		go func(w int) {
			defer wg.Done()
			tr, err := NewTracer(fmt.Sprintf("%s.%d.ndjson", o.Out, w))
			if err != nil {
				firstErr.CompareAndSwap(nil, err)
				return
			}
			dir := filepath.Join(o.Dir, fmt.Sprintf("w%d", w))
			os.MkdirAll(dir, 0o755)
			cur, _ := os.Create(fmt.Sprintf("%s.%d.cur", o.Out, w))
			for {
				i := int(atomic.AddInt64(&next, 1))
				if i >= len(scens) || firstErr.Load() != nil {
					break
				}
				if bytes.HasPrefix(scens[i], []byte(`{"skip"`)) {
					continue
				}
				// progress marker: lets the driver find the scenario that killed or hung the process
				if cur != nil {
					cur.WriteAt([]byte(fmt.Sprintf("%-12d", i)), 0)
				}
				tr.Begin(i)
				done := make(chan error, 1)
				go func() { done <- fn(w, dir, tr, i, scens[i]) }()
				select {
				case err := <-done:
					if err != nil {
						firstErr.CompareAndSwap(nil, fmt.Errorf("scenario %d: %w", i, err))
					}
				case <-time.After(ScenarioTimeout):
					fmt.Fprintf(os.Stderr, "scenario %d did not finish within %s\n", i, ScenarioTimeout)
					os.Exit(4)
				}
				if firstErr.Load() != nil {
					break
				}
			}
			if cur != nil {
				cur.WriteAt([]byte(fmt.Sprintf("%-12d", -1)), 0)
				cur.Close()
			}
			if err := tr.Close(); err != nil {
				firstErr.CompareAndSwap(nil, err)
			}
			atomic.AddInt64(&total, tr.N)
			os.RemoveAll(dir)
		}(w)
	}
	wg.Wait()
	if e := firstErr.Load(); e != nil {
		return total, e.(error)
	}
	return total, nil
}

// Summary prints the machine-readable summary line.
func Summary(kv map[string]any) {
	b, _ := json.Marshal(kv)
	fmt.Println("SUMMARY " + string(b))
}

// Ints converts bytes to a JSON-friendly []int (TLA+ sequences of naturals).
func Ints(b []byte) []int {
	out := make([]int, len(b))
	for i, x := range b {
		out[i] = int(x)
	}
	return out
}

// Bytes converts []int to bytes.
func Bytes(a []int) []byte {
	out := make([]byte, len(a))
	for i, x := range a {
		out[i] = byte(x)
	}
	return out
}
