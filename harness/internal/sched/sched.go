// Package sched is a cooperative scheduler for goroutines of the code under
// test. Logical threads are goroutines registered by goroutine id; the vhook
// hook parks a registered goroutine at every named yield point and reports
// (thread, point); the driver releases exactly one thread at a time. Goroutines
// that are not registered (the library's own background goroutines, other
// scenarios in the same process) pass through the hook untouched, so many
// schedulers can run in one process.
package sched

import (
	"bytes"
	"fmt"
	"runtime"
	"strconv"
	"sync"
	"sync/atomic"
	"time"

	"github.com/ipld/go-storethehash/store/vhook"
)

var (
	regMu sync.RWMutex
	reg   = map[uint64]*Thread{}
	once  sync.Once
)

func gid() uint64 {
	var buf [64]byte
	n := runtime.Stack(buf[:], false)
	b := bytes.TrimPrefix(buf[:n], []byte("goroutine "))
	i := bytes.IndexByte(b, ' ')
	id, _ := strconv.ParseUint(string(b[:i]), 10, 64)
	return id
}

func hook(point string) {
	id := gid()
	regMu.RLock()
	t := reg[id]
	h := handlers[id]
	regMu.RUnlock()
	if h != nil {
		h(point)
	}
	if t == nil {
		if h == nil {
			if g, ok := global.Load().(func(string)); ok && g != nil {
				g(point)
			}
		}
		return
	}
	t.at(point)
}

var global atomic.Value // func(string): handler for goroutines that are neither threads nor have their own handler

// SetGlobal installs (or with nil removes) the handler for yield points passed by
// goroutines the harness did not start, i.e. the library's own background goroutines.
// Only one scenario per process may use it at a time.
func SetGlobal(fn func(point string)) {
	once.Do(func() { vhook.SetHook(hook) })
	if fn == nil {
		fn = func(string) {}
	}
	global.Store(fn)
}

var handlers = map[uint64]func(string){}

// OnPoint makes fn the handler of every yield point the CALLING goroutine passes
// (free-running engines use it to gate or log specific goroutines). The returned
// function removes the handler.
func OnPoint(fn func(point string)) func() {
	once.Do(func() { vhook.SetHook(hook) })
	id := gid()
	regMu.Lock()
	handlers[id] = fn
	regMu.Unlock()
	return func() {
		regMu.Lock()
		delete(handlers, id)
		regMu.Unlock()
	}
}

// Event is what a thread reports: a yield point, "done", or "blocked".
type Event struct {
	Thread string
	Point  string
	Seq    int
}

// Sched owns a set of threads and a totally ordered log of their events.
type Sched struct {
	mu      sync.Mutex
	threads map[string]*Thread
	seq     int
	Log     func(Event) // called for every yield point passed (also in free mode)
	free    bool
}

// Thread is one logical thread.
type Thread struct {
	s       *Sched
	Name    string
	report  chan string
	resume  chan struct{}
	Done    bool
	Blocked bool   // last Step timed out; the thread is still running towards its next point
	At      string // point where it is parked ("" if running/blocked/done)
}

func New() *Sched {
	once.Do(func() { vhook.SetHook(hook) })
	return &Sched{threads: map[string]*Thread{}}
}

func (s *Sched) log(th, point string) {
	s.mu.Lock()
	s.seq++
	e := Event{Thread: th, Point: point, Seq: s.seq}
	f := s.Log
	s.mu.Unlock()
	if f != nil {
		f(e)
	}
}

func (t *Thread) at(point string) {
	t.s.log(t.Name, point)
	t.s.mu.Lock()
	free := t.s.free
	t.s.mu.Unlock()
	if free {
		return
	}
	t.report <- point
	<-t.resume
}

// Yield is a harness-level yield point for code between library calls.
func (s *Sched) Yield(point string) { hook(point) }

// Go starts fn as thread name. The thread parks immediately at point "start".
func (s *Sched) Go(name string, fn func()) *Thread {
	t := &Thread{s: s, Name: name, report: make(chan string), resume: make(chan struct{})}
	s.mu.Lock()
	s.threads[name] = t
	s.mu.Unlock()
	started := make(chan struct{})
	go func() {
		id := gid()
		regMu.Lock()
		reg[id] = t
		regMu.Unlock()
		close(started)
		t.at("start")
		func() {
			defer func() {
				if r := recover(); r != nil {
					t.s.log(t.Name, fmt.Sprint("panic: ", r))
				}
			}()
			fn()
		}()
		regMu.Lock()
		delete(reg, id)
		regMu.Unlock()
		t.s.log(t.Name, "done")
		t.s.mu.Lock()
		free := t.s.free
		t.s.mu.Unlock()
		if !free {
			t.report <- "done"
		} else {
			t.s.mu.Lock()
			t.Done = true
			t.s.mu.Unlock()
		}
	}()
	<-started
	<-t.report // parked at "start"
	t.At = "start"
	return t
}

func (s *Sched) Thread(name string) *Thread {
	s.mu.Lock()
	defer s.mu.Unlock()
	return s.threads[name]
}

// Step releases the thread and waits for its next report. It returns the point
// reached, "done", or "blocked" if nothing was reported within timeout (the
// thread keeps running; a later Wait collects its report).
func (t *Thread) Step(timeout time.Duration) string {
	if t.Done {
		return "done"
	}
	if !t.Blocked {
		t.At = ""
		t.resume <- struct{}{}
	}
	return t.Wait(timeout)
}

// Wait collects the report of a thread that was released earlier.
func (t *Thread) Wait(timeout time.Duration) string {
	select {
	case p := <-t.report:
		t.Blocked = false
		if p == "done" {
			t.Done = true
			return "done"
		}
		t.At = p
		return p
	case <-time.After(timeout):
		t.Blocked = true
		return "blocked"
	}
}

// StepUntil steps the thread, passing intermediate points, until it reaches one
// of the targets, finishes, or blocks.
func (t *Thread) StepUntil(timeout time.Duration, targets ...string) string {
	for {
		p := t.Step(timeout)
		if p == "done" || p == "blocked" {
			return p
		}
		for _, x := range targets {
			if x == p {
				return p
			}
		}
	}
}

// Free switches to free-running mode: parked threads are released and yield
// points only log from now on.
func (s *Sched) Free() {
	s.mu.Lock()
	s.free = true
	ts := make([]*Thread, 0, len(s.threads))
	for _, t := range s.threads {
		ts = append(ts, t)
	}
	s.mu.Unlock()
	for _, t := range ts {
		if t.Done {
			continue
		}
		if t.Blocked {
			// running already; drain its pending report, if it makes one, in the background
			go func(t *Thread) {
				select {
				case p := <-t.report:
					if p == "done" {
						t.s.mu.Lock()
						t.Done = true
						t.s.mu.Unlock()
					} else {
						t.resume <- struct{}{}
					}
				case <-time.After(30 * time.Second):
				}
			}(t)
			continue
		}
		t.resume <- struct{}{}
	}
}

// IsDone reports whether the thread function has returned.
func (t *Thread) IsDone() bool {
	t.s.mu.Lock()
	defer t.s.mu.Unlock()
	return t.Done
}
