// Package straceimg rebuilds every intermediate directory image of a traced
// process from an strace log (strace -f -y -xx -s <big>). It replays the file
// system calls that change file contents or the directory tree: openat with
// O_CREAT / O_TRUNC, write (O_APPEND files), pwrite64, ftruncate, truncate,
// renameat*, unlinkat, mkdirat, copy_file_range, sendfile. Only paths under the
// given root are tracked; writes to the marker file are returned as marks.
package straceimg

import (
	"bufio"
	"fmt"
	"os"
	"path/filepath"
	"regexp"
	"strconv"
	"strings"
)

// Op is one effect on the tracked tree.
type Op struct {
	Kind  string // create trunc append pwrite ftrunc rename unlink mkdir rmdir copy mark
	Path  string
	Path2 string
	Data  []byte
	Off   int64
	Size  int64
	Line  int
}

var (
	reLine    = regexp.MustCompile(`^(\d+)\s+(.*)$`)
	reResumed = regexp.MustCompile(`^<\.\.\. (\w+) resumed>(.*)$`)
	reFdPath  = regexp.MustCompile(`^(-?\d+)<([^>]*)>`)
	reRet     = regexp.MustCompile(`\)\s+= `)
)

func unhex(s string) []byte {
	out := make([]byte, 0, len(s)/4)
	for i := 0; i < len(s); {
		if s[i] == '\\' && i+3 < len(s) && s[i+1] == 'x' {
			v, err := strconv.ParseUint(s[i+2:i+4], 16, 8)
			if err == nil {
				out = append(out, byte(v))
				i += 4
				continue
			}
		}
		out = append(out, s[i])
		i++
	}
	return out
}

// splitArgs splits a syscall argument list at top-level commas (strings and <...> annotations respected).
func splitArgs(s string) []string {
	var out []string
	depth, inStr, start := 0, false, 0
	for i := 0; i < len(s); i++ {
		c := s[i]
		switch {
		case inStr:
			if c == '\\' {
				i++
			} else if c == '"' {
				inStr = false
			}
		case c == '"':
			inStr = true
		case c == '<' || c == '{' || c == '[' || c == '(':
			depth++
		case c == '>' || c == '}' || c == ']' || c == ')':
			depth--
		case c == ',' && depth == 0:
			out = append(out, strings.TrimSpace(s[start:i]))
			start = i + 1
		}
	}
	out = append(out, strings.TrimSpace(s[start:]))
	return out
}

func strArg(a string) (string, bool) {
	if len(a) >= 2 && a[0] == '"' {
		end := strings.LastIndex(a, `"`)
		if end > 0 {
			return string(unhex(a[1:end])), true
		}
	}
	return "", false
}

func fdPath(a string) string {
	m := reFdPath.FindStringSubmatch(a)
	if m == nil {
		return ""
	}
	return strings.TrimSuffix(string(unhex(m[2])), " (deleted)")
}

func absPath(dirArg, p string) string {
	if filepath.IsAbs(p) {
		return filepath.Clean(p)
	}
	return filepath.Clean(filepath.Join(fdPath(dirArg), p))
}

// Parse reads the strace log and returns the ordered effects under root plus marks.
func Parse(logPath, root, markFile string) ([]Op, error) {
	f, err := os.Open(logPath)
	if err != nil {
		return nil, err
	}
	defer f.Close()
	sc := bufio.NewScanner(f)
	sc.Buffer(make([]byte, 1<<20), 1<<28)
	pending := map[string]string{}
	var ops []Op
	under := func(p string) bool { return p == root || strings.HasPrefix(p, root+"/") }
	n := 0
	for sc.Scan() {
		n++
		m := reLine.FindStringSubmatch(sc.Text())
		if m == nil {
			continue
		}
		pid, rest := m[1], m[2]
		if strings.HasSuffix(rest, "<unfinished ...>") {
			pending[pid] = strings.TrimSuffix(rest, "<unfinished ...>")
			continue
		}
		if r := reResumed.FindStringSubmatch(rest); r != nil {
			rest = pending[pid] + r[2]
			delete(pending, pid)
		}
		open := strings.IndexByte(rest, '(')
		// the closing parenthesis and the result are separated by padding whose width varies (a resumed call is
		// printed as "<... write resumed>)              = 7"): take the LAST ")<spaces>= "
		eq, eqEnd := -1, -1
		if loc := reRet.FindAllStringIndex(rest, -1); len(loc) > 0 {
			eq, eqEnd = loc[len(loc)-1][0], loc[len(loc)-1][1]
		}
		if open < 0 || eq < 0 {
			if open > 0 && !strings.HasPrefix(rest, "+++") && !strings.HasPrefix(rest, "---") && !strings.Contains(rest, "???") {
				return nil, fmt.Errorf("strace line %d: cannot find the result of %.60q", n, rest)
			}
			continue
		}
		name, argstr, ret := rest[:open], rest[open+1:eq], strings.TrimSpace(rest[eqEnd:])
		retv := ret
		if i := strings.IndexAny(ret, " <"); i > 0 {
			retv = ret[:i]
		}
		rv, rerr := strconv.ParseInt(retv, 10, 64)
		if rerr != nil || rv < 0 {
			continue // failed call: no effect
		}
		args := splitArgs(argstr)
		switch name {
		case "openat":
			if len(args) < 3 {
				continue
			}
			p, ok := strArg(args[1])
			if !ok {
				continue
			}
			p = absPath(args[0], p)
			if !under(p) {
				continue
			}
			flags := args[2]
			if strings.Contains(flags, "O_DIRECTORY") {
				continue
			}
			if strings.Contains(flags, "O_CREAT") {
				ops = append(ops, Op{Kind: "create", Path: p, Line: n})
			}
			if strings.Contains(flags, "O_TRUNC") {
				ops = append(ops, Op{Kind: "trunc", Path: p, Line: n})
			}
		case "write":
			p := fdPath(args[0])
			data, ok := strArg(args[1])
			if !ok {
				continue
			}
			if p == markFile {
				ops = append(ops, Op{Kind: "mark", Data: []byte(data), Line: n})
				continue
			}
			if !under(p) {
				continue
			}
			ops = append(ops, Op{Kind: "append", Path: p, Data: []byte(data)[:rv], Line: n})
		case "pwrite64":
			p := fdPath(args[0])
			data, ok := strArg(args[1])
			if !ok || !under(p) {
				continue
			}
			off, _ := strconv.ParseInt(args[len(args)-1], 10, 64)
			ops = append(ops, Op{Kind: "pwrite", Path: p, Data: []byte(data)[:rv], Off: off, Line: n})
		case "ftruncate":
			p := fdPath(args[0])
			if !under(p) {
				continue
			}
			sz, _ := strconv.ParseInt(args[1], 10, 64)
			ops = append(ops, Op{Kind: "ftrunc", Path: p, Size: sz, Line: n})
		case "truncate":
			p, ok := strArg(args[0])
			if !ok {
				continue
			}
			p = filepath.Clean(p)
			if !under(p) {
				continue
			}
			sz, _ := strconv.ParseInt(args[1], 10, 64)
			ops = append(ops, Op{Kind: "ftrunc", Path: p, Size: sz, Line: n})
		case "renameat", "renameat2":
			a, ok1 := strArg(args[1])
			b, ok2 := strArg(args[3])
			if !ok1 || !ok2 {
				continue
			}
			a, b = absPath(args[0], a), absPath(args[2], b)
			if under(a) || under(b) {
				ops = append(ops, Op{Kind: "rename", Path: a, Path2: b, Line: n})
			}
		case "rename":
			a, ok1 := strArg(args[0])
			b, ok2 := strArg(args[1])
			if ok1 && ok2 && (under(a) || under(b)) {
				ops = append(ops, Op{Kind: "rename", Path: filepath.Clean(a), Path2: filepath.Clean(b), Line: n})
			}
		case "unlinkat":
			p, ok := strArg(args[1])
			if !ok {
				continue
			}
			p = absPath(args[0], p)
			if !under(p) {
				continue
			}
			if strings.Contains(args[2], "AT_REMOVEDIR") {
				ops = append(ops, Op{Kind: "rmdir", Path: p, Line: n})
			} else {
				ops = append(ops, Op{Kind: "unlink", Path: p, Line: n})
			}
		case "unlink":
			if p, ok := strArg(args[0]); ok && under(filepath.Clean(p)) {
				ops = append(ops, Op{Kind: "unlink", Path: filepath.Clean(p), Line: n})
			}
		case "rmdir":
			if p, ok := strArg(args[0]); ok && under(filepath.Clean(p)) {
				ops = append(ops, Op{Kind: "rmdir", Path: filepath.Clean(p), Line: n})
			}
		case "mkdirat":
			p, ok := strArg(args[1])
			if ok {
				p = absPath(args[0], p)
				if under(p) {
					ops = append(ops, Op{Kind: "mkdir", Path: p, Line: n})
				}
			}
		case "mkdir":
			if p, ok := strArg(args[0]); ok && under(filepath.Clean(p)) {
				ops = append(ops, Op{Kind: "mkdir", Path: filepath.Clean(p), Line: n})
			}
		case "copy_file_range", "sendfile":
			var src, dst string
			if name == "copy_file_range" {
				src, dst = fdPath(args[0]), fdPath(args[2])
			} else {
				dst, src = fdPath(args[0]), fdPath(args[1])
			}
			if under(dst) && rv > 0 {
				ops = append(ops, Op{Kind: "copy", Path: dst, Path2: src, Size: rv, Line: n})
			}
		}
	}
	return ops, sc.Err()
}

// Image is a directory tree in memory.
type Image struct {
	Files map[string][]byte
	Dirs  map[string]bool
	// read positions of copy sources (copy_file_range with NULL offsets advances the file position)
	copyPos map[string]int64
}

func NewImage(root string) *Image {
	return &Image{Files: map[string][]byte{}, Dirs: map[string]bool{root: true}, copyPos: map[string]int64{}}
}

// Apply applies one op (marks are ignored).
func (im *Image) Apply(op Op) error {
	switch op.Kind {
	case "create":
		if _, ok := im.Files[op.Path]; !ok {
			im.Files[op.Path] = []byte{}
		}
	case "trunc":
		im.Files[op.Path] = []byte{}
		delete(im.copyPos, op.Path)
	case "append":
		im.Files[op.Path] = append(append([]byte(nil), im.Files[op.Path]...), op.Data...)
	case "pwrite":
		b := append([]byte(nil), im.Files[op.Path]...)
		for int64(len(b)) < op.Off+int64(len(op.Data)) {
			b = append(b, 0)
		}
		copy(b[op.Off:], op.Data)
		im.Files[op.Path] = b
	case "ftrunc":
		b := append([]byte(nil), im.Files[op.Path]...)
		if int64(len(b)) > op.Size {
			b = b[:op.Size]
		}
		for int64(len(b)) < op.Size {
			b = append(b, 0)
		}
		im.Files[op.Path] = b
	case "rename":
		if b, ok := im.Files[op.Path]; ok {
			im.Files[op.Path2] = b
			delete(im.Files, op.Path)
		} else if im.Dirs[op.Path] {
			// directory rename: move everything below
			for p, b := range im.Files {
				if strings.HasPrefix(p, op.Path+"/") {
					im.Files[op.Path2+p[len(op.Path):]] = b
					delete(im.Files, p)
				}
			}
			delete(im.Dirs, op.Path)
			im.Dirs[op.Path2] = true
		}
	case "unlink":
		delete(im.Files, op.Path)
	case "rmdir":
		delete(im.Dirs, op.Path)
	case "mkdir":
		im.Dirs[op.Path] = true
	case "copy":
		src, ok := im.Files[op.Path2]
		if !ok {
			return fmt.Errorf("copy from untracked source %s", op.Path2)
		}
		pos := im.copyPos[op.Path2+"->"+op.Path]
		end := pos + op.Size
		if end > int64(len(src)) {
			end = int64(len(src))
		}
		im.Files[op.Path] = append(append([]byte(nil), im.Files[op.Path]...), src[pos:end]...)
		im.copyPos[op.Path2+"->"+op.Path] = end
	}
	return nil
}

// Clone copies the image (file contents are shared; Apply never mutates a slice in place).
func (im *Image) Clone() *Image {
	c := &Image{Files: make(map[string][]byte, len(im.Files)), Dirs: make(map[string]bool, len(im.Dirs)), copyPos: map[string]int64{}}
	for k, v := range im.Files {
		c.Files[k] = v
	}
	for k, v := range im.Dirs {
		c.Dirs[k] = v
	}
	for k, v := range im.copyPos {
		c.copyPos[k] = v
	}
	return c
}

// Materialize writes the image below dst, mapping root to dst.
func (im *Image) Materialize(root, dst string) error {
	for d := range im.Dirs {
		if err := os.MkdirAll(filepath.Join(dst, strings.TrimPrefix(d, root)), 0o755); err != nil {
			return err
		}
	}
	for p, b := range im.Files {
		out := filepath.Join(dst, strings.TrimPrefix(p, root))
		if err := os.MkdirAll(filepath.Dir(out), 0o755); err != nil {
			return err
		}
		if err := os.WriteFile(out, b, 0o644); err != nil {
			return err
		}
	}
	return nil
}
