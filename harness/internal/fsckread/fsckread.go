// Package fsckread is an independent reader of go-storethehash's on-disk
// formats (it shares no parsing code with the repository). It produces the
// projection that the Fsck rules of the TLA+ trace specifications are evaluated
// on: headers, index files (records, deleted bit, entries), primary files
// (records, deleted bit, key digest, value length/hash), freelist, freelist.gc
// and the saved bucket snapshot.
package fsckread

import (
	"crypto/sha1"
	"encoding/binary"
	"encoding/hex"
	"encoding/json"
	"fmt"
	"os"
	"sort"
	"strconv"
	"strings"
)

const delBit = uint32(1) << 31

type IdxHeader struct {
	OK      bool   `json:"ok"`
	Version int    `json:"version"`
	Bits    int    `json:"bits"`
	Limit   int64  `json:"limit"`
	First   int64  `json:"first"`
	PFS     int64  `json:"pfs"`
	Err     string `json:"err"`
}

type PriHeader struct {
	OK      bool   `json:"ok"`
	Version int    `json:"version"`
	Limit   int64  `json:"limit"`
	First   int64  `json:"first"`
	Err     string `json:"err"`
}

// Entry is one record-list entry.
type Entry struct {
	P   []int `json:"p"`   // stored key prefix
	Off int64 `json:"off"` // absolute primary position (of the size prefix)
	Sz  int64 `json:"sz"`  // key+value size
}

// IdxRec is one record of an index file. Pos is the bucket-table position that
// would refer to it (file*limit + local offset of the data, i.e. 4 past the size).
type IdxRec struct {
	Off  int64   `json:"off"`
	Size int64   `json:"size"`
	Del  bool    `json:"del"`
	B    int64   `json:"b"`
	Pos  int64   `json:"pos"`
	Ents []Entry `json:"ents"`
	Bad  string  `json:"bad"`
}

type IdxFile struct {
	N    int64    `json:"n"`
	Size int64    `json:"size"`
	Recs []IdxRec `json:"recs"`
	Tail int64    `json:"tail"` // unparsable trailing bytes
}

// PriRec is one record of a primary file. Pos is its absolute position.
type PriRec struct {
	Off  int64  `json:"off"`
	Size int64  `json:"size"` // key+value size (without the deleted bit)
	Del  bool   `json:"del"`
	Pos  int64  `json:"pos"`
	Dig  []int  `json:"dig"`  // digest of the key (nil for deleted/unparsable)
	VLen int64  `json:"vlen"` // value length (-1 unknown)
	VH   string `json:"vh"`   // short hash of the value
	Bad  string `json:"bad"`
	// Direct: found only at the position an index entry names, not by walking the file (behind a torn tail, or inside a
	// span that GC has merged: the bytes of a subsumed record are still there and a superseded record list may name them)
	Direct bool `json:"direct"`
}

type PriFile struct {
	N    int64    `json:"n"`
	Size int64    `json:"size"`
	Recs []PriRec `json:"recs"`
	Tail int64    `json:"tail"`
}

type Proj struct {
	IH      IdxHeader  `json:"ih"`
	PH      PriHeader  `json:"ph"`
	IF      []IdxFile  `json:"if"`
	PF      []PriFile  `json:"pf"`
	FL      [][2]int64 `json:"fl"`   // freelist file entries (off,size)
	GC      [][2]int64 `json:"gc"`   // freelist.gc entries
	HasGC   bool       `json:"hasgc"`
	Snap    [][2]int64 `json:"snap"` // non-empty entries of the saved snapshot
	HasSnap bool       `json:"hassnap"`
	SnapLen int64      `json:"snaplen"`
	Other   []string   `json:"other"` // unexpected files in the directories
	Direct  int        `json:"direct"` // primary records found only at an index entry's position, not by walking the file
}

func readIdxHeader(path string) IdxHeader {
	var h IdxHeader
	b, err := os.ReadFile(path)
	if err != nil {
		h.Err = err.Error()
		return h
	}
	var raw struct {
		Version         int
		BucketsBits     int
		MaxFileSize     int64
		FirstFile       int64
		PrimaryFileSize int64
	}
	if err := json.Unmarshal(b, &raw); err != nil {
		h.Err = "json: " + err.Error()
		return h
	}
	return IdxHeader{OK: true, Version: raw.Version, Bits: raw.BucketsBits, Limit: raw.MaxFileSize, First: raw.FirstFile, PFS: raw.PrimaryFileSize}
}

func readPriHeader(path string) PriHeader {
	var h PriHeader
	b, err := os.ReadFile(path)
	if err != nil {
		h.Err = err.Error()
		return h
	}
	var raw struct {
		Version     int
		MaxFileSize int64
		FirstFile   int64
	}
	if err := json.Unmarshal(b, &raw); err != nil {
		h.Err = "json: " + err.Error()
		return h
	}
	return PriHeader{OK: true, Version: raw.Version, Limit: raw.MaxFileSize, First: raw.FirstFile}
}

func ints(b []byte) []int {
	out := make([]int, len(b))
	for i, x := range b {
		out[i] = int(x)
	}
	return out
}

func parseEntries(b []byte) ([]Entry, string) {
	var out []Entry
	for len(b) > 0 {
		if len(b) < 13 {
			return out, "short entry"
		}
		off := int64(binary.LittleEndian.Uint64(b))
		sz := int64(binary.LittleEndian.Uint32(b[8:]))
		n := int(b[12])
		if len(b) < 13+n {
			return out, "short entry key"
		}
		out = append(out, Entry{P: ints(b[13 : 13+n]), Off: off, Sz: sz})
		b = b[13+n:]
	}
	return out, ""
}

// ReadIdxFile parses one index file.
func ReadIdxFile(path string, n, limit int64) (IdxFile, error) {
	b, err := os.ReadFile(path)
	if err != nil {
		return IdxFile{}, err
	}
	f := IdxFile{N: n, Size: int64(len(b)), Recs: []IdxRec{}}
	pos := int64(0)
	for pos < int64(len(b)) {
		if int64(len(b))-pos < 4 {
			break
		}
		raw := binary.LittleEndian.Uint32(b[pos:])
		del := raw&delBit != 0
		size := int64(raw &^ delBit)
		if pos+4+size > int64(len(b)) {
			break
		}
		r := IdxRec{Off: pos, Size: size, Del: del, Pos: n*limit + pos + 4, Ents: []Entry{}, B: -1}
		if !del {
			if size < 4 {
				r.Bad = "record shorter than bucket tag"
			} else {
				r.B = int64(binary.LittleEndian.Uint32(b[pos+4:]))
				ents, bad := parseEntries(b[pos+8 : pos+4+size])
				if ents != nil {
					r.Ents = ents
				}
				r.Bad = bad
			}
		}
		f.Recs = append(f.Recs, r)
		pos += 4 + size
	}
	f.Tail = int64(len(b)) - pos
	return f, nil
}

func uvarint(b []byte) (uint64, int) {
	v, n := binary.Uvarint(b)
	return v, n
}

// parseKey extracts the digest from a stored key: a multihash, or a CID (v0/v1).
func parseKey(b []byte, cidKey bool) (digest []byte, keyLen int, bad string) {
	p := 0
	if cidKey {
		if len(b) >= 2 && b[0] == 0x12 && b[1] == 0x20 {
			// CIDv0: bare sha2-256 multihash
		} else {
			ver, n := uvarint(b)
			if n <= 0 || ver != 1 {
				return nil, 0, "bad cid version"
			}
			p += n
			_, n = uvarint(b[p:])
			if n <= 0 {
				return nil, 0, "bad cid codec"
			}
			p += n
		}
	}
	_, n := uvarint(b[p:])
	if n <= 0 {
		return nil, 0, "bad mh code"
	}
	p += n
	l, n := uvarint(b[p:])
	if n <= 0 {
		return nil, 0, "bad mh length"
	}
	p += n
	if p+int(l) > len(b) {
		return nil, 0, "mh digest longer than record"
	}
	return b[p : p+int(l)], p + int(l), ""
}

// ReadPriFile parses one primary file.
func ReadPriFile(path string, n, limit int64, cidKey bool) (PriFile, error) {
	b, err := os.ReadFile(path)
	if err != nil {
		return PriFile{}, err
	}
	f := PriFile{N: n, Size: int64(len(b)), Recs: []PriRec{}}
	pos := int64(0)
	for pos < int64(len(b)) {
		if int64(len(b))-pos < 4 {
			break
		}
		raw := binary.LittleEndian.Uint32(b[pos:])
		del := raw&delBit != 0
		size := int64(raw &^ delBit)
		if pos+4+size > int64(len(b)) {
			break
		}
		r := PriRec{Off: pos, Size: size, Del: del, Pos: n*limit + pos, VLen: -1, Dig: []int{}}
		if !del {
			dig, kl, bad := parseKey(b[pos+4:pos+4+size], cidKey)
			r.Bad = bad
			if bad == "" {
				r.Dig = ints(dig)
				val := b[pos+4+int64(kl) : pos+4+size]
				r.VLen = int64(len(val))
				h := sha1.Sum(val)
				r.VH = hex.EncodeToString(h[:6])
			}
		}
		f.Recs = append(f.Recs, r)
		pos += 4 + size
	}
	f.Tail = int64(len(b)) - pos
	return f, nil
}

// directPriRec parses the record at a given local offset of a primary file.
func directPriRec(path string, n, limit, local int64, cidKey bool) (PriRec, bool) {
	b, err := os.ReadFile(path)
	if err != nil || local+4 > int64(len(b)) {
		return PriRec{}, false
	}
	raw := binary.LittleEndian.Uint32(b[local:])
	del := raw&delBit != 0
	size := int64(raw &^ delBit)
	if local+4+size > int64(len(b)) {
		return PriRec{}, false
	}
	r := PriRec{Off: local, Size: size, Del: del, Pos: n*limit + local, VLen: -1, Dig: []int{}}
	if !del {
		dig, kl, bad := parseKey(b[local+4:local+4+size], cidKey)
		r.Bad = bad
		if bad == "" {
			r.Dig = ints(dig)
			val := b[local+4+int64(kl) : local+4+size]
			r.VLen = int64(len(val))
			h := sha1.Sum(val)
			r.VH = hex.EncodeToString(h[:6])
		}
	}
	return r, true
}

func readFreeList(path string) ([][2]int64, bool, int64) {
	b, err := os.ReadFile(path)
	if err != nil {
		return [][2]int64{}, false, 0
	}
	out := [][2]int64{}
	for len(b) >= 12 {
		out = append(out, [2]int64{int64(binary.LittleEndian.Uint64(b)), int64(binary.LittleEndian.Uint32(b[8:]))})
		b = b[12:]
	}
	return out, true, int64(len(b))
}

func numbered(dir, base string) (map[int64]string, []string) {
	ents, _ := os.ReadDir(dir)
	out := map[int64]string{}
	var other []string
	for _, e := range ents {
		name := e.Name()
		if !strings.HasPrefix(name, base+".") {
			continue
		}
		suf := name[len(base)+1:]
		if n, err := strconv.ParseInt(suf, 10, 64); err == nil && n >= 0 && strconv.FormatInt(n, 10) == suf {
			out[n] = dir + "/" + name
		} else {
			other = append(other, name)
		}
	}
	return out, other
}

// Read builds the projection of a store whose index is at indexPath and whose
// multihash primary is at dataPath (for the CID primary dataPath is a single file).
func Read(indexDir, indexBase, dataDir, dataBase string, cidPrimary bool) (*Proj, error) {
	p := &Proj{IF: []IdxFile{}, PF: []PriFile{}, Snap: [][2]int64{}, Other: []string{}}
	p.IH = readIdxHeader(indexDir + "/" + indexBase + ".info")
	ilimit := p.IH.Limit
	if ilimit == 0 {
		ilimit = 1 << 30
	}
	ifiles, iother := numbered(indexDir, indexBase)
	var nums []int64
	for n := range ifiles {
		nums = append(nums, n)
	}
	sort.Slice(nums, func(i, j int) bool { return nums[i] < nums[j] })
	for _, n := range nums {
		f, err := ReadIdxFile(ifiles[n], n, ilimit)
		if err != nil {
			return nil, err
		}
		p.IF = append(p.IF, f)
	}
	for _, o := range iother {
		switch o {
		case indexBase + ".info", indexBase + ".buckets", indexBase + ".free", indexBase + ".free.gc":
		default:
			p.Other = append(p.Other, o)
		}
	}
	if cidPrimary {
		p.PH = PriHeader{OK: true, Limit: 1 << 40}
		f, err := ReadPriFile(dataDir+"/"+dataBase, 0, 1<<40, true)
		if err == nil {
			p.PF = append(p.PF, f)
		}
	} else {
		p.PH = readPriHeader(dataDir + "/" + dataBase + ".info")
		plimit := p.PH.Limit
		if plimit == 0 {
			plimit = 1 << 30
		}
		pfiles, pother := numbered(dataDir, dataBase)
		nums = nums[:0]
		for n := range pfiles {
			nums = append(nums, n)
		}
		sort.Slice(nums, func(i, j int) bool { return nums[i] < nums[j] })
		for _, n := range nums {
			f, err := ReadPriFile(pfiles[n], n, plimit, false)
			if err != nil {
				return nil, err
			}
			p.PF = append(p.PF, f)
		}
		for _, o := range pother {
			if o != dataBase+".info" {
				p.Other = append(p.Other, o)
			}
		}
	}
	// Records that index entries name but that a sequential walk of the primary file does not
	// reach (a torn tail left by a crash sits in front of them) are parsed at their position.
	{
		known := map[int64]bool{}
		for _, f := range p.PF {
			for _, r := range f.Recs {
				known[r.Pos] = true
			}
		}
		plimit := p.PH.Limit
		if plimit == 0 {
			plimit = 1 << 30
		}
		for _, f := range p.IF {
			for _, rec := range f.Recs {
				if rec.Del {
					continue
				}
				_ = cidPrimary
				for _, en := range rec.Ents {
					if known[en.Off] {
						continue
					}
					known[en.Off] = true
					fn, local := en.Off/plimit, en.Off%plimit
					for i := range p.PF {
						if p.PF[i].N != fn {
							continue
						}
						path := dataDir + "/" + dataBase + "." + strconv.FormatInt(fn, 10)
						if cidPrimary {
							path = dataDir + "/" + dataBase
						}
						if r, ok := directPriRec(path, fn, plimit, local, cidPrimary); ok {
							r.Direct = true
							p.PF[i].Recs = append(p.PF[i].Recs, r)
							p.Direct++
						}
					}
				}
			}
		}
	}
	var rem int64
	p.FL, _, rem = readFreeList(indexDir + "/" + indexBase + ".free")
	if rem != 0 {
		p.Other = append(p.Other, fmt.Sprintf("freelist has %d trailing bytes", rem))
	}
	p.GC, p.HasGC, _ = readFreeList(indexDir + "/" + indexBase + ".free.gc")
	if b, err := os.ReadFile(indexDir + "/" + indexBase + ".buckets"); err == nil {
		p.HasSnap = true
		p.SnapLen = int64(len(b))
		for i := 0; i+8 <= len(b); i += 8 {
			v := int64(binary.LittleEndian.Uint64(b[i:]))
			if v != 0 {
				p.Snap = append(p.Snap, [2]int64{int64(i / 8), v})
			}
		}
	}
	return p, nil
}
