module verif/harness

go 1.25

require (
	github.com/ipfs/go-block-format v0.0.3
	github.com/ipfs/go-cid v0.3.2
	github.com/ipfs/go-ipld-format v0.4.0
	github.com/ipfs/go-log/v2 v2.5.1
	github.com/ipld/go-storethehash v0.0.0
	github.com/multiformats/go-multihash v0.2.1
)

require (
	github.com/gogo/protobuf v1.3.2 // indirect
	github.com/google/uuid v1.1.1 // indirect
	github.com/hashicorp/golang-lru v0.5.4 // indirect
	github.com/ipfs/bbloom v0.0.4 // indirect
	github.com/ipfs/go-datastore v0.5.0 // indirect
	github.com/ipfs/go-ipfs-blockstore v1.2.0 // indirect
	github.com/ipfs/go-ipfs-ds-help v1.1.0 // indirect
	github.com/ipfs/go-ipfs-util v0.0.2 // indirect
	github.com/ipfs/go-log v0.0.1 // indirect
	github.com/ipfs/go-metrics-interface v0.0.1 // indirect
	github.com/jbenet/goprocess v0.1.4 // indirect
	github.com/klauspost/cpuid/v2 v2.0.9 // indirect
	github.com/mattn/go-colorable v0.1.2 // indirect
	github.com/mattn/go-isatty v0.0.14 // indirect
	github.com/minio/sha256-simd v1.0.0 // indirect
	github.com/mr-tron/base58 v1.2.0 // indirect
	github.com/multiformats/go-base32 v0.0.3 // indirect
	github.com/multiformats/go-base36 v0.1.0 // indirect
	github.com/multiformats/go-multibase v0.0.3 // indirect
	github.com/multiformats/go-varint v0.0.6 // indirect
	github.com/opentracing/opentracing-go v1.1.0 // indirect
	github.com/spaolacci/murmur3 v1.1.0 // indirect
	github.com/whyrusleeping/go-logging v0.0.0-20170515211332-0457bb6b88fc // indirect
	go.uber.org/atomic v1.7.0 // indirect
	go.uber.org/multierr v1.6.0 // indirect
	go.uber.org/zap v1.19.1 // indirect
	golang.org/x/crypto v0.0.0-20220525230936-793ad666bf5e // indirect
	golang.org/x/sys v0.0.0-20210630005230-0f9fa26af87c // indirect
	lukechampine.com/blake3 v1.1.6 // indirect
)

replace github.com/ipld/go-storethehash => /repo
