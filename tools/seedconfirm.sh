#!/bin/bash
# Development aid: confirm a seeded change independently.
# usage: seedconfirm.sh <id-dir> <base-commit> <pkgdir> <run-regex> [tags]
# checks: patch applies; builds with/without the verif tag; existing suite passes with it;
# demo fails with the change and passes without.
d=$1; base=$2; pkg=$3; rx=$4; tags=$5
wt=/tmp/confirm.$(basename $d).$$; rm -rf $wt
git -C /repo worktree add -q --detach $wt $base || exit 2
export GOFLAGS=-mod=mod GOPROXY=off
res="apply="
git -C $wt apply $d/patch.diff && res+="ok" || res+="FAIL"
(cd $wt && go build ./... && go build -tags verif ./...) >/dev/null 2>&1 && res+=" build=ok" || res+=" build=FAIL"
(cd $wt && go test -vet=off -count=1 ./... 2>&1 | grep -v "no test files" | grep -qv "^ok") && res+=" suite=FAIL" || res+=" suite=ok"
for f in $d/demo*_test.go; do cp $f $wt/$pkg/zz_$(basename $f); done
(cd $wt && go test ${tags:+-tags $tags} -vet=off -count=1 -run "$rx" ./$pkg/ >/dev/null 2>&1) && res+=" demo_with_change=PASS(unexpected)" || res+=" demo_with_change=fails"
git -C $wt apply -R $d/patch.diff
(cd $wt && go test ${tags:+-tags $tags} -vet=off -count=1 -run "$rx" ./$pkg/ >/dev/null 2>&1) && res+=" demo_without=passes" || res+=" demo_without=FAILS(unexpected)"
echo "CONFIRM $(basename $d): $res"
git -C /repo worktree remove --force $wt
