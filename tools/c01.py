"""C01 - the store behaves like a map.  Histories come from KV.tla (every history up to a
length bound, and TLC -simulate walks), run on a real store under a sweep of adversarial
configurations, judged by StoreTrace.tla."""
import json, os, random
import vlib, seqeng

NONTRIVIAL = "non-trivial = the history makes at least two keys of one bucket present at once or rolls a file"


def witnesses(pid):
    ws = []
    for w in vlib.known_findings().get("fixed", []):
        if w.get("property") == pid and w.get("witness"):
            with open(os.path.join(vlib.VERIF, w["witness"])) as f:
                ws.append(json.load(f)["scenario"])
    return ws


def report_bad(rep, scens, by, engine="seq"):
    for t, items in by.items():
        i, rules = seqeng.first_failure(items)
        rep.violation("rules %s at line %d" % (",".join(rules), i), {"engine": engine, "scenario": scens[t], "rules": rules, "line": i})


def run(pid):
    rep = vlib.Report(pid)
    rng = random.Random(vlib.seed())
    vlib.build_harness()
    thorough = vlib.tier() == "thorough"
    # 0. the byte-accurate mechanism model: Store.tla is model-checked (Refines = C01 at design level), every transition of
    #    its state graph is executed on the real store (verdict: StoreTrace) and the model's files are compared with the
    #    projection of the real files after every flush (StoreMTrace: model-conformance figure, not a verdict)
    mkeys = [[1, 7, 7, 0, 9, 0, 3, 3], [1, 7, 7, 0, 9, 0, 3, 4], [2, 7, 7, 0, 9, 0, 3, 3]]
    drift_total = checked_total = 0
    for pl, il, mc in ([(30, 30, 6), (33, 70, 6), (28, 22, 5), (200, 70, 5)] if thorough else [(33, 30, 5)]):
        consts = {"Vals": "{0, 5}", "PriLimit": pl, "IdxLimit": il, "MaxCalls": mc, "WithGC": "FALSE", "LowUses": "{101}", "Deadlines": "{0}", "IDeadlines": "{0}"}
        r0 = vlib.tlc_must("MCStore", "MCStore_mc.cfg", consts=consts, timeout=3000)
        if r0.violated:
            raise vlib.Infra("Store.tla violates Refines / PredictedPositionsExact / FreedOnce - replay the counter-example first:\n" + r0.out[-2500:])
        rep.add_model(r0)
        ms, g0, nexp = vlib.gen_scenarios("MCStore", "MCStore", consts, edges=True, timeout=3000)
        mcfg = dict(primary="mh", bits=8, il=il, pl=pl, imm=False, keys=mkeys, vals=["empty", "b5"], proj=True, probe="end")
        msc = [{"cfg": mcfg, "ops": [dict(o, v=(1 if o.get("vlen") == 0 else 2)) if o["op"] == "put" else o for o in s["ops"]]} for s in ms]
        vlib.log("C01: Store.tla limits %d/%d, <= %d calls: %d states, %d transitions, %d maximal histories" % (pl, il, mc, g0.distinct, nexp, len(msc)))
        bym, nm = seqeng.run_and_judge(msc, "mech", monitors=[("StoreTrace", None)], keep=True)
        report_bad(rep, msc, bym)
        drift, nl, _ = vlib.validate_traces("StoreMTrace", "StoreMTrace.cfg", seqeng.KEPT_FILES, consts=dict(consts, MaxCalls=100000))
        for f in seqeng.KEPT_FILES:
            os.unlink(f)
        drift_total += len({(b["t"]) for b in drift})
        checked_total += len(msc)
        rep.cov["evaluations"] += nm
        rep.cov["traces_validated_against_impl"] += len(msc)
    rep.cov["mechanism_model_histories_replayed"] = checked_total
    rep.cov["mechanism_model_histories_whose_files_differ_from_the_model"] = drift_total
    # 1. every history of put/remove/flush up to the bound over 3 keys (2 sharing bucket and prefix) x 3 values (one empty)
    blen = 5 if thorough else 4
    consts = seqeng.kv_consts(3, ["put", "rem", "flush"], blen, nv=3)
    hs, r = seqeng.gen_histories(consts, "bfs", timeout=1500)
    rep.add_model(r)
    base_keys = [[1, 7, 7, 0, 9, 0, 3, 3], [1, 7, 7, 0, 9, 0, 3, 4], [2, 7, 7, 0, 9, 0, 3, 3]]
    vals3 = ["empty", "a1", "b5"]
    cfgs = [dict(primary="mh", bits=8, il=30, pl=30, imm=False, keys=base_keys, vals=vals3, probe="all"),
            dict(primary="mh", bits=9, il=1 << 30, pl=1 << 30, imm=False, keys=base_keys, vals=vals3, probe="end"),
            dict(primary="cid", bits=8, il=70, pl=1 << 30, imm=False, keys=base_keys, vals=["nil", "a1", "b5"], probe="all"),
            dict(primary="mh", bits=12, il=70, pl=70, imm=True, keys=base_keys, vals=vals3, probe="all")]
    use = cfgs if thorough else cfgs[:2] + [cfgs[2 + vlib.seed() % 2]]
    scens = [{"cfg": c, "ops": h} for c in use for h in hs]
    vlib.log("C01: %d exhaustive histories of length %d x %d configurations" % (len(hs), blen, len(use)))
    by, n = seqeng.run_and_judge(scens, "bfs")
    report_bad(rep, scens, by)
    rep.cov["evaluations"] += n
    rep.cov["traces_validated_against_impl"] += len(scens)
    rep.cov["samples"] = [scens[len(scens) // 3]["ops"], scens[-1]["ops"], msc[len(msc) // 2]["ops"]]
    # 2. TLC -simulate walks with all calls, under a seeded configuration sweep
    nsim, depth = (20000, 60) if thorough else (1500, 40)
    w = ["put"] * 5 + ["rem"] * 2 + ["flush"] * 2 + ["get", "has", "size", "iter"]
    for imm in (False, True):
        consts = seqeng.kv_consts(6, w, depth, imm=imm)
        k = nsim if not imm else nsim // 4
        hs2, r2 = seqeng.gen_histories(consts, "sim", num=k, seed=vlib.seed() * 2 + int(imm))
        rep.cov["transitions"] += r2.states
        cfgl = seqeng.sweep(rng, 64, imm=(imm,), bits=(8, 8, 9, 12, 16, 20) if thorough else (8, 8, 9, 12, 16))
        for c in cfgl:
            c["probe"] = rng.choice(["all", "end"])
        sc2 = [{"cfg": cfgl[i % len(cfgl)], "ops": h} for i, h in enumerate(hs2)]
        by2, n2 = seqeng.run_and_judge(sc2, "sim%d" % imm)
        report_bad(rep, sc2, by2)
        rep.cov["evaluations"] += n2
        rep.cov["traces_validated_against_impl"] += len(sc2)
        rep.cov["samples"].append(sc2[0]["ops"][:10])
    # 3. one 24-bit index run (the default size; 128 MiB table, so only a few)
    big = [{"cfg": dict(seqeng.sweep(rng, 1, bits=(24,))[0], probe="end"), "ops": h} for h in hs2[: (8 if thorough else 2)]]
    by3, n3 = seqeng.run_and_judge(big, "big")
    report_bad(rep, big, by3)
    rep.cov["evaluations"] += n3
    rep.cov["traces_validated_against_impl"] += len(big)
    # 4. witnesses of repaired defects (must pass)
    ws = witnesses(pid)
    if ws:
        by4, n4 = seqeng.run_and_judge(ws, "wit")
        report_bad(rep, ws, by4)
        rep.cov["traces_validated_against_impl"] += len(ws)
    rep.cov["exhaustive"] = True
    rep.cov["distinct_nontrivial"] = len({json.dumps(s["ops"]) for s in scens}) + nsim
    rep.cov["rule"] = ("all histories of Put/Remove/Flush of length %d over 3 keys (two sharing bucket and 7 prefix bytes) x 3 values (one empty), each under %d configurations "
                       "(file limits where every record starts a new file, multihash and CID primaries, immutable mode), plus TLC -simulate walks of KV.tla with all calls under 64 seeded "
                       "configurations (bits 8..24, limits 30 B..1 GiB); every key probed with Get/Has/GetSize after every call (or only at the end); " % (blen, len(use))) + NONTRIVIAL
    rep.assumptions = ["TLC + Json module", "keys are well-formed multihashes/CIDs with 8-byte digests, none a prefix of another (as C01 states)",
                       "values written for different keys differ in their last byte so foreign bytes are recognisable"]
    return rep.finish()


def replay(pid, path):
    rep = vlib.Report(pid, replay=True)
    with open(path) as f:
        obj = json.load(f)
    vlib.build_harness()
    by, n = seqeng.run_and_judge([obj["scenario"]], "replay")
    report_bad(rep, [obj["scenario"]], by)
    print("replay: %d offending lines" % sum(len(v) for v in by.values()))
    return rep.finish()
