"""Concurrency engine glue: schedules from StoreConc*.tla -> `vrun conc` -> LinTrace.tla."""
import json, os, random
import vlib

CLIENT_STOPS = ["idx.get.afterBucketInfo", "put.afterIdxGet", "rem.afterIdxGet", "get.afterIdxGet", "put.afterPriPut",
                "put.afterIdxUpdate", "rem.afterIdxRemove"]
FLUSH_STOPS = ["pri.flush.afterSwap", "commit.afterPrimary", "idx.flush.afterSwap", "idx.flush.afterWrite", "commit.afterIndex"]
IGC_STOPS = ["idxgc.afterFreeScan", "idxgc.afterBusy", "idxgc.beforeTruncate", "idxgc.beforeHeader", "idxgc.beforeUnlink"]
PGC_STOPS = ["fl.togc.locked", "fl.togc.afterRename", "prigc.beforeDelete", "prigc.afterFreeList", "prigc.beforeTruncate",
             "prigc.reloc.afterPut", "prigc.reloc.afterUpdate", "prigc.reloc.afterFree", "prigc.beforeHeader", "prigc.beforeUnlink"]


def judge(rep, scens, label, monitors=(("LinTrace", None),), engine="conc"):
    d = vlib.subdir("conc." + label)
    sf = os.path.join(d, "scen.ndjson")
    vlib.write_ndjson(sf, scens)
    files, summ = vlib.run_harness("conc", sf, os.path.join(d, "trace"), timeout=3000)
    by = {}
    nlines = 0
    for mon, env in monitors:
        bad, nlines, _ = vlib.validate_traces(mon, mon + ".cfg", files, extra_env=env)
        for b in bad:
            by.setdefault(b["t"], set()).add(b["rule"])
    for c in summ.get("crashed", []):
        by.setdefault(c["t"], set()).add("process-crash-or-hang")
    for f in files:
        os.unlink(f)
    rep.cov["traces_validated_against_impl"] += len(scens)
    rep.cov["evaluations"] += nlines
    for k in ("steps_blocked", "schedule_steps_for_finished_threads"):
        rep.cov[k] = rep.cov.get(k, 0) + summ.get(k, 0)
    # a trace that only reports known-finding windows (no rule violated) is not a failure
    out = {}
    for t, r in by.items():
        real = {x for x in r if not x.startswith("window:")}
        if real:
            out[t] = sorted(r)
    rep.cov["histories_in_which_a_known_window_opened"] = rep.cov.get("histories_in_which_a_known_window_opened", 0) + sum(1 for r in by.values() if any(x.startswith("window:") for x in r))
    return out


KF_SYMPTOMS = {
    "KF-C06-idx-read-after-reap": {"call-failed", "final-read-error"},
    "KF-C06-stale-primary-loc": {"not-linearizable", "contents-changed-by-flush-and-reopen", "call-failed"},
}


def split_known(rules):
    """-> (known finding id or None, remaining rules). A failure is attributed to a known finding iff its
    TLA+ trigger (window:<id>, evaluated by LinTrace on the recorded yield points) fired AND every
    violated rule is among that finding's symptoms."""
    wins = [x[7:] for x in rules if x.startswith("window:")]
    real = {x for x in rules if not x.startswith("window:")}
    for w in wins:
        if real and real <= KF_SYMPTOMS.get(w, set()):
            return w, real
    return None, real
