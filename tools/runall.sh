#!/bin/bash
# Development aid: run every registered quick (or thorough) check once and print status and wall time.
tier=${1:-quick}; shift
ids=${@:-$(python3 -c "import json;print(' '.join(c['property_id'] for c in json.load(open('/verif/MANIFEST.json'))['checks']))")}
cd /verif
for id in $ids; do
  s=$(date +%s); out=$(VERIF_TIER=$tier ./check $id 2>&1); rc=$?; e=$(date +%s)
  echo "$id rc=$rc $((e-s))s $(echo "$out" | grep -E '^(OK|VIOLATION|INFRA|KNOWN)' | cut -c1-120 | head -3 | tr '\n' '|')"
done
