"""C12 - rate-limited writers are always released.  FlushRate.tla is model-checked for
liveness (NoLostWakeup under fairness); every transition of its state graph is replayed
as a schedule on a real store by the cooperative scheduler; FlushRateTrace.tla judges."""
import json, os, random
import vlib


def judge(rep, scens, label):
    d = vlib.subdir("c12." + label)
    sf = os.path.join(d, "scen.ndjson")
    vlib.write_ndjson(sf, scens)
    files, summ = vlib.run_harness("flushrate", sf, os.path.join(d, "trace"), timeout=3000)
    bad, nlines, _ = vlib.validate_traces("FlushRateTrace", "FlushRateTrace.cfg", files)
    rep.cov["traces_validated_against_impl"] += len(scens)
    rep.cov["evaluations"] += nlines
    rep.cov["steps_where_code_and_model_disagree"] = rep.cov.get("steps_where_code_and_model_disagree", 0) + summ.get("steps_where_code_and_model_disagree", 0)
    for c in summ.get("crashed", []):
        rep.violation("the harness process dies or hangs while executing this schedule alone", {"engine": "flushrate", "scenario": scens[c["t"]], "rules": ["process-crash-or-hang"]})
    seen = set()
    for b in bad:
        if b["t"] in seen:
            continue
        seen.add(b["t"])
        rules = sorted({x["rule"] for x in bad if x["t"] == b["t"]})
        rep.violation("rules %s" % ",".join(rules), {"engine": "flushrate", "scenario": scens[b["t"]], "rules": rules})
    return bad


def witnesses(pid):
    ws = []
    for w in vlib.known_findings().get("fixed", []):
        if w.get("property") == pid and w.get("witness"):
            with open(os.path.join(vlib.VERIF, w["witness"])) as f:
                ws.append(json.load(f)["scenario"])
    return ws


def run(pid):
    rep = vlib.Report(pid)
    rng = random.Random(vlib.seed())
    vlib.build_harness()
    thorough = vlib.tier() == "thorough"
    programs = [(["w1"], False, 2, None), (["w1"], True, 1, None), (["w1", "w2"], False, 1, None if thorough else 250),
                (["w1", "w2"], True, 1, None if thorough else 150)]
    total = 0
    for writers, explicit, ticks, sample in programs:
        consts = {"Writers": "{" + ", ".join('"%s"' % w for w in writers) + "}", "Explicit": "TRUE" if explicit else "FALSE",
                  "NotifyWhenIdle": "TRUE", "MaxTicks": ticks, "Record": "FALSE"}
        # design level: the protocol has no lost wake-up (liveness under fairness) in the model of the current code
        r = vlib.tlc_must("MCFlushRate", "MCFlushRate_live.cfg", consts=consts, timeout=900)
        if r.violated:
            raise vlib.Infra("FlushRate.tla (model of the repaired code) violates NoLostWakeup - model and code must be re-aligned:\n" + r.out[-2000:])
        rep.add_model(r)
        consts["Record"] = "TRUE"
        scens, g, nexp = vlib.gen_scenarios("MCFlushRate", "MCFlushRate", consts, edges=True, key=lambda s: s["schedule"])
        for s in scens:
            s["writers"], s["explicit"] = writers, explicit
        full = len(scens)
        if sample and len(scens) > sample:
            scens = rng.sample(scens, sample)
        vlib.log("C12 writers=%s explicit=%s: %d model states, %d transitions, %d maximal schedules, %d replayed" % (writers, explicit, g.distinct, nexp, full, len(scens)))
        if not sample:
            rep.cov.setdefault("programs_replayed_exhaustively", []).append("%s explicit=%s" % ("+".join(writers), explicit))
        total += len(scens)
        if len(rep.cov["samples"]) < 3:
            rep.cov["samples"].append(scens[len(scens) // 2]["schedule"])
        judge(rep, scens, "p%d" % total)
    ws = witnesses(pid)
    if ws:
        judge(rep, ws, "wit")
        total += len(ws)
    rep.cov["exhaustive"] = thorough
    rep.cov["distinct_nontrivial"] = total
    rep.cov["rule"] = ("one schedule per reachable TRANSITION of FlushRate.tla (writer steps put/measure/register/signal/wait x flusher steps tick/take/check/commit/notify x explicit Flush caller), "
                       "replayed on a real store by the cooperative scheduler at the yield points of flushTick/Flush, then all threads run free with a 1 ms ticker for up to 2 s; "
                       "1-writer programs exhaustively, 2-writer programs exhaustively in the thorough tier and sampled in the quick tier; non-trivial = the writer enters the waiting path")
    rep.assumptions = ["TLC + Json module", "yield points sit between the critical sections of flushTick and Flush", "a writer that has not returned 2 s after the schedule (1 ms ticker, flushes succeeding) waits for ever"]
    return rep.finish()


def replay(pid, path):
    rep = vlib.Report(pid, replay=True)
    with open(path) as f:
        obj = json.load(f)
    vlib.build_harness()
    bad = judge(rep, [obj["scenario"]], "replay")
    print("replay: %d offending lines" % len(bad))
    return rep.finish()
