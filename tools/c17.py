"""C17 - Close stops all background activity and releases every resource.  Lifecycle.tla is
model-checked (AllStopped, NoStepAfterClose, RelocationFlushed); for every background yield point
a real store's own goroutine is parked there while Close runs; failing opens; open/close
repetition; LifecycleTrace.tla judges descriptors, goroutines and directory fingerprints."""
import concurrent.futures as cf
import json, os, random
import vlib, conceng

POINTS = conceng.IGC_STOPS + conceng.PGC_STOPS + ["pri.flush.afterSwap", "commit.afterPrimary", "idx.flush.afterSwap", "idx.flush.afterWrite", "commit.afterIndex",
                                                   "flush.committed", "prigc.afterFreeList"]


def run_life(rep, scens, label):
    d = vlib.subdir("life." + label)
    procs = min(vlib.WORKERS, 8, len(scens))
    chunks = [scens[i::procs] for i in range(procs)]
    idxs = [list(range(len(scens)))[i::procs] for i in range(procs)]

    def one(i):
        sf = os.path.join(d, "scen%d.ndjson" % i)
        vlib.write_ndjson(sf, chunks[i])
        files, summ = vlib.run_harness("life", sf, os.path.join(d, "trace%d" % i), workers=1, timeout=3000)
        bad, n, _ = vlib.validate_traces("LifecycleTrace", "LifecycleTrace.cfg", files)
        return i, bad, n, summ
    out = {}
    nlines = parked = 0
    with cf.ThreadPoolExecutor(max_workers=procs) as ex:
        for i, bad, n, summ in ex.map(one, range(procs)):
            nlines += n
            parked += summ.get("parked", 0)
            for b in bad:
                out.setdefault(idxs[i][b["t"]], set()).add(b["rule"])
            for c in summ.get("crashed", []):
                out.setdefault(idxs[i][c["t"]], set()).add("process-crash-or-hang")
    rep.cov["evaluations"] += nlines
    rep.cov["traces_validated_against_impl"] += len(scens)
    rep.cov["scenarios_in_which_a_background_goroutine_was_parked"] = rep.cov.get("scenarios_in_which_a_background_goroutine_was_parked", 0) + parked
    return {t: sorted(r) for t, r in out.items()}


def witnesses(pid, kind):
    out = []
    for w in vlib.known_findings().get(kind, []):
        if (w.get("property") == pid or pid in w.get("also", [])) and str(w.get("witness", "")).endswith("-life.json"):
            with open(os.path.join(vlib.VERIF, w["witness"])) as f:
                out.append((w, json.load(f)["scenario"]))
    return out


def run(pid):
    rep = vlib.Report(pid)
    rng = random.Random(vlib.seed())
    vlib.build_harness()
    thorough = vlib.tier() == "thorough"
    r = vlib.tlc_must("MCLifecycle", "MCLifecycle_mc.cfg", consts={"CycleSteps": 4 if thorough else 3, "StopPrimaryGCFirst": "TRUE"}, timeout=600)
    if r.violated:
        raise vlib.Infra("Lifecycle.tla (model of the current Close order) violates its invariants:\n" + r.out[-2000:])
    rep.add_model(r)
    g = vlib.tlc_must("MCLifecycle", "MCLifecycle_edges.cfg", consts={"CycleSteps": 4 if thorough else 3, "StopPrimaryGCFirst": "TRUE"}, timeout=600)
    model_cases = {json.dumps(x, sort_keys=True) for x in g.printed("SCN")}
    rep.cov["model_cases_close_issued_at"] = len(model_cases)
    scens = []
    for p in POINTS:
        for nth in ((1, 2, 4) if thorough else (1, 3)):
            for rep_i in range(2 if thorough else 1):
                scens.append({"kind": "park", "point": p, "nth": nth, "seed": vlib.seed() * 100 + len(scens)})
    # relocation in progress while Close runs (larger primary files + a workload that leaves low-use files)
    for p in ("prigc.reloc.afterPut", "prigc.reloc.afterUpdate", "prigc.reloc.afterFree", "prigc.beforeDelete", "prigc.beforeTruncate", "fl.togc.afterRename"):
        for nth in ((1, 2, 3) if thorough else (1, 2)):
            scens.append({"kind": "park", "point": p, "nth": nth, "seed": vlib.seed() * 100 + len(scens), "pl": 600, "wl": "reloc"})
    scens.append({"kind": "park", "point": "", "nth": 1, "seed": vlib.seed()})
    for f in ("idxsize", "prisize", "idxheader", "priheader", "ptype", "bitsandsize", "bitsandtrunc"):
        scens.append({"kind": "failopen", "fail": f, "seed": vlib.seed() + 3})
    scens.append({"kind": "cycles", "cycles": 60 if thorough else 25, "seed": vlib.seed()})
    vlib.log("C17: %d scenarios (%d yield points)" % (len(scens), len(POINTS)))
    by = run_life(rep, scens, "main")
    for t, rules in by.items():
        rep.violation("rules %s" % ",".join(rules), {"engine": "life", "scenario": scens[t], "rules": rules})
    for w, sc in witnesses(pid, "fixed"):
        byw = run_life(rep, [sc] * 3, "fx")
        for t, rules in byw.items():
            rep.violation("witness of a repaired defect fails again: %s" % ",".join(rules), {"engine": "life", "scenario": sc, "rules": rules})
    rep.cov["samples"] = scens[:2] + scens[-3:]
    rep.cov["exhaustive"] = False
    rep.cov["distinct_nontrivial"] = len(scens)
    rep.cov["rule"] = ("for every yield point of the index-GC cycle, the primary-GC cycle and the commit (%d points) and the n-th time it is reached: a real started store (flusher and both collectors at 1 ms, file limits 64 B) "
                       "has its OWN background goroutine parked there, Close is issued, the goroutine is released after 30 ms; plus 5 failing opens and %d open/work/close repetitions; "
                       "non-trivial = a goroutine was actually parked (see scenarios_in_which_a_background_goroutine_was_parked)" % (len(POINTS), 60 if thorough else 25))
    rep.assumptions = ["TLC + Json module", "goroutines are attributed to the module by a frame containing go-storethehash/store", "150 ms after Close returned is long enough for exiting goroutines to be gone",
                       "timers of the library run at 1 ms so that cycles are in progress when Close is issued"]
    return rep.finish()


def replay(pid, path):
    rep = vlib.Report(pid, replay=True)
    with open(path) as f:
        obj = json.load(f)
    vlib.build_harness()
    by = run_life(rep, [obj["scenario"]] * 3, "replay")
    for t, rules in by.items():
        rep.violation("rules %s" % ",".join(rules), {"engine": "life", "scenario": obj["scenario"], "rules": rules})
    print("replay (3 runs): %s" % by)
    return rep.finish()
