#!/usr/bin/env python3
"""Regenerates /verif/MANIFEST.json from the table below and validates it."""
import json, os, subprocess, sys
VERIF = os.path.dirname(os.path.dirname(os.path.abspath(__file__)))

BASELINE_OFF = ("cd /repo && go test -mod=mod -vet=off -count=1 -timeout 25m ./...")

CHECKS = {
 "C08": dict(engine="reclist", technique="TLC model checking of RecordList.tla + replay of every reachable model state on the real index + TLC trace validation (RecordListTrace.tla)",
   text="RecordList.tla (a transcription of Index.Put/Update/Remove/Get and the record-list scan) is model-checked exhaustively for Sorted/PrefixFree/OwnPrefix/Resolves/Count/TouchesOnlyAddressed over all keys of a small alphabet; every reachable model state is then reached on a real index.Index (both pool and disk read paths) and TLC evaluates the same predicates on the REAL record list and REAL Index.Get results after every operation; seeded random histories over larger alphabets extend the bound.",
   note="small-scope hypothesis for the exhaustive part (binary/ternary alphabets, key length 3-4); in-memory primary; TLC and the Json/IOUtils community modules are trusted.",
   ref="DESIGN.md §3.2, §6 C08"),
 "C14": dict(engine="fcache", technique="TLC model checking of FileCache.tla + replay of every reachable model transition on the real FileCache + TLC trace validation (FileCacheTrace.tla)",
   text="FileCache.tla (a transcription of filecache.go: LRU list, per-entry refcounts, the removed map, capacity 0 pass-through) is model-checked exhaustively for LentOpen/ClosedOnce/ReleasedClosed/RefsOK/Bound/NoPanic/NoSpuriousErr; every reachable transition of the model is executed on a real FileCache over real files and TLC judges, after every call, the observed usability of every handle (Stat), the descriptor count from /proc/self/fd, Len/Cap, errors and panics with policy-independent rules; seeded random histories over more names/capacities extend the bound.",
   note="small-scope hypothesis for the exhaustive part (2-3 names, capacities 0..3, <= 8 calls); a closed handle is observed through Stat failing; TLC and community modules trusted. Concurrent use is covered only by the single-lock argument in DESIGN.md, not by this check.",
   ref="DESIGN.md §3.8, §6 C14"),
 "C15": dict(engine="bstore", technique="TLC model checking of Blockstore.tla + replay of every reachable model transition on the real HashedBlockstore + TLC trace validation (BlockstoreTrace.tla)",
   text="Blockstore.tla (the blockstore contract over an immutable store: first write wins, aliasing by multihash, typed not-found, cancelled contexts without side effects, hash-on-read on/off over matching and mismatching bytes) is model-checked; every reachable transition is executed on a real HashedBlockstore and TLC judges each logged outcome plus a post-call probe (Has, GetSize, Get of every multihash); seeded random histories over 4 hash functions, 3 codecs, CIDv0/v1 and block sizes 0 B..1 KiB extend the bound.",
   note="small-scope hypothesis for the exhaustive part; identity multihashes and digests shorter than 4 bytes are outside the property (key constraints of C01); TLC and community modules trusted.",
   ref="DESIGN.md §3.9, §6 C15"),
 "C01": dict(engine="seq", technique="TLC-generated histories (KV.tla: exhaustive to a length bound + -simulate) replayed on the real store under a configuration sweep + TLC trace validation against the map (StoreTrace.tla)",
   text="KV.tla specifies the map; TLC enumerates every history of Put/Remove/Flush up to a length bound and samples long histories of all calls with -simulate; each is executed on a real store (multihash and CID primaries, immutable on/off, index bits 8..24, file limits from 30 B - every record starts a new file - to 1 GiB, key sets sharing a bucket and up to 7 prefix bytes, empty values in both Go forms) and StoreTrace.tla, a total TLC monitor, judges every logged result, every iteration and a Get/Has/GetSize probe of every key after every call.",
   note="bounded histories (exhaustive to length 4/5, sampled to length 40-60); 3-5 keys; verdict only from real-code observations; the byte-accurate mechanism model (Store.tla) is used for generation/conformance, not for verdicts.",
   ref="DESIGN.md §3.1, §6 C01"),
 "C02": dict(engine="seq", technique="TLC-generated histories with Close/reopen (KV.tla) replayed on the real store + TLC trace validation (StoreTrace.tla) incl. snapshot-vs-rescan bucket-table comparison",
   text="Histories with Close/reopen at arbitrary positions (snapshot kept, deleted, truncated) mixed with flushes, rollovers, overwrites, removals and GC cycles are generated from KV.tla and run on a real store; at every reopen both recovery paths are additionally run on copies of the closed directory. TLC judges: contents unchanged (probe of every key), Close and a second Close return nil, reopen succeeds, both recovery paths open and yield identical bucket tables (read through a verif-tagged accessor).",
   note="as C01; the live bucket table is compared only between the two recovery paths (the table before Close legitimately differs when data is unflushed).",
   ref="DESIGN.md §6 C02"),
 "C04": dict(engine="seq", technique="TLC-generated histories with GC cycles (KV.tla) replayed on the real store + TLC trace validation (StoreTrace.tla) with attribution by removing the GC steps",
   text="Histories with index-GC (scan-free on/off) and primary-GC cycles (low-use thresholds 0/50/85/101, deterministic time limits that stop a cycle at its n-th check and resume later) at arbitrary positions, with and without unflushed data, around reopen, are generated from KV.tla (exhaustive to length 4/5 over the GC-relevant alphabet, sampled to length 50-80) and executed with file limits so small that every GC branch (mark, merge, truncate, empty file, unlink first, header advance, resume, freelist application, relocation of 1 and 2 records) occurs; TLC judges that every later Get/Has/GetSize/Remove/iteration/reopen answers as the map says. A failure is attributed to C04 only if it disappears when the GC steps are removed from the history.",
   note="GC return values are logged, not judged; time limits are modelled by a context whose Err() turns DeadlineExceeded at the n-th call.",
   ref="DESIGN.md §6 C04"),
 "C09": dict(engine="seq", technique="TLC-generated histories with bit-size changes and refused opens (KV.tla) replayed on the real store + TLC trace validation (StoreTrace.tla)",
   text="Histories that reopen with a different index bit size (pairs from 8..17 quick, 8..24 thorough), or try to open with a different index/primary file-size limit, are generated from KV.tla and executed; TLC judges contents unchanged after re-bucketing and C01 behaviour afterwards, that a mismatching limit is refused with the specific error type (errors.As) leaving the directory byte-identical, and that the original settings reopen intact. The third sentence (interrupted re-bucketing) is decided by the crash engine: the translating open runs under strace, every intermediate image is opened with the new and with the old bit size, and CrashTrace.tla requires that an open that succeeds shows every key.",
   note="crash points strictly inside the move phase of translateIndex are the known finding KF-C09-interrupted-translation (pinned witness, reported as KNOWN-FINDING); all other crash points of the translation are judged.",
   ref="DESIGN.md §6 C09"),
 "C07": dict(engine="seq", technique="Fsck.tla (F1-F5) evaluated by TLC on projections of the real files taken by an independent reader at every quiescent point of TLC-generated histories",
   text="Fsck.tla states the mutual-consistency rules as predicates over a projection of the directory: F1 buckets point at complete non-deleted records tagged with their bucket in files >= FirstFile; F2 entries point at complete non-deleted primary records of the recorded size whose digest carries the bucket bits and the stored prefix; F3 sorted/prefix-free/distinct locations; F4 no live location on the freelist or .gc; F5 header first-file numbers. An independent reader of the formats (fsckread, no shared code) projects the real directory after every Flush, GC cycle, reopen, bit-size change and iteration of all short histories and of simulated long ones, and TLC (FsckTrace.tla) evaluates the rules on each projection together with the live bucket table.",
   note="quiescent states of sequential histories only in this check; recovered states are projected by the crash engine, concurrent end states by the concurrency engine; F6 (snapshot = rescan) is judged by C02.",
   ref="DESIGN.md §3.4, §6 C07"),
 "C13": dict(engine="seq", technique="Fsck.tla F7 (multiset equality freelist+.gc vs unreferenced unmarked primary records) and F4 evaluated by TLC on projections of the real files",
   text="File-level form of exactly-once accounting: at every quiescent point the freelist and .gc entries whose record is still unmarked must be, as a multiset, exactly the primary records that are neither marked deleted nor named by a live index entry - a lost entry shows as an unreferenced live-looking record, a duplicate as multiplicity 2, a premature or spurious one as a referenced location (F4/F7-current-location-freed). Evaluated by TLC on projections after every Flush, GC cycle (incl. cycles stopped by their time limit, relocation) and reopen of all short histories and simulated long ones.",
   note="sequential histories; interleavings of freelist Put/Flush/ToGC are explored by the concurrency engine; after a crash only the safety half is demanded (DESIGN.md §6 C13).",
   ref="DESIGN.md §6 C13"),
 "C12": dict(engine="flushrate", technique="TLC liveness checking of FlushRate.tla (NoLostWakeup under fairness) + replay of every model transition as a schedule on the real store by a cooperative scheduler at verif yield points + TLC trace validation (FlushRateTrace.tla)",
   text="FlushRate.tla models the back-pressure protocol one action per critical section (writer: put, measure, register, signal, wait; flusher: tick, take, check, commit, notify; explicit Flush caller). TLC checks NoLostWakeup (waiting ~> released) under weak fairness of the flusher and a recurring ticker, and exports one schedule per transition of the state graph. A cooperative scheduler keyed by goroutine id replays each schedule on a real store (the harness plays Store.run's ticker and receive through verif accessors), probes after every flusher step whether a waiting writer can proceed, then lets all threads run free with a 1 ms ticker for 2 s. TLC judges the recorded events: R1 every writer returned; R2 a writer is released only after a flusher step in which Flush returned began after its registration.",
   note="1-writer programs (with and without an explicit Flush caller) exhaustively; 2-writer programs exhaustively in the thorough tier, sampled in the quick tier; atomicity violations strictly inside a critical section are only reachable in the free-running phase; 'waits for ever' is observed as 'has not returned after 2 s with a 1 ms ticker'.",
   ref="DESIGN.md §3.7, §6 C12"),
 "C11": dict(engine="seq", technique="TLC-generated histories (KV.tla -simulate) extended by kill and GC phases, executed on the real store; C11Trace.tla (TLC) judges projections of the real files, reported storage sizes and directory fingerprints",
   text="Histories from KV.tla are continued in four ways (all keys removed; a subset removed/overwritten; a subset overwritten followed by drain cycles with threshold 0; idle rounds) and executed with file limits of 30-200 B so that data spreads over many primary and index files. C11Trace.tla evaluates on the projection of the REAL directory after every cycle: a non-current primary file without live references / an index file without bucket references has length 0 or is gone after at most 2 completed cycles; every file that was non-current when a threshold-0 drain began is released within ceil(live/2)+3 cycles; a cycle never increases the reported StorageSize (16 B header slack); once two consecutive idle rounds leave the directory fingerprint unchanged all later rounds do, and no file except the re-created empty freelist is touched.",
   note="cycle bounds are generous versions of the measured ones (1 and ceil(live/2)+1); GC cycles run without time limits in this check (progress under time limits is not bounded by the property); 'unlinked' is demanded only in the form the property states (0-byte files that become oldest later may stay).",
   ref="DESIGN.md §6 C11"),
 "C05": dict(engine="conc", technique="TLC model checking of StoreConc.tla (Linearizable, NoError) + replay of its transitions as schedules on the real store by a cooperative scheduler + TLC as linearizability checker on the recorded history (LinTrace.tla)",
   text="StoreConc.tla models every foreground call as the separate critical sections of store.go (bucket info, record-list read, primary read/compare/write, index write, freelist put) over two keys that share bucket and stored prefix (real insertion rule), interleaved with the six steps of a commit; TLC checks linearizability at every terminal state and exports one schedule per transition. The cooperative scheduler replays them at the verif yield points on a real store; overlapping-commit probes park one Flush at each of its yield points and run a write and a second Flush. LinTrace.tla searches, for each recorded history (results, real-time order, final contents before and after flush + reopen), a linearization under the map semantics.",
   note="2 threads x 1 call + 1-2 commits per history; quick tier samples 1500 schedules per configuration, thorough replays all; programs that fire the known findings KF-C05-same-key-writers-a/b are guarded out of the bulk (KnownRace in the spec) and run as pinned witnesses; races strictly inside a critical section are not reachable by schedule replay.",
   ref="DESIGN.md §3.6, §6 C05"),
 "C06": dict(engine="conc", technique="TLC model checking of StoreConcGC.tla + schedule replay (client call x commit x index-GC cycle x primary-GC cycle with relocation) and lock probes on the real store + LinTrace.tla; free-running histories with both collectors checked by RegTrace.tla",
   text="StoreConcGC.tla models one call, one commit, an index-GC cycle and a primary-GC cycle with relocation over abstract locations; TLC checks that the call's result and the final contents are undisturbed and exports one schedule per transition. Schedules are replayed by thread choice on real stores whose files were shaped by sequential setups (superseded index/primary records, pending freelist entries, every record in its own file, buckets evicted from the write pools). Lock probes park the flusher and each collector at every yield point and run every other thread to completion. Free-running rounds (4 single-writer writers, 4 readers, started flusher, 2 extra Flush callers, both collectors in a loop) are checked by RegTrace.tla (atomic-register conditions per key, final contents before/after reopen).",
   note="the two known findings KF-C06-idx-read-after-reap and KF-C06-stale-primary-loc are guarded out of the model schedules, their trigger predicates are evaluated in TLA+ on the recorded yield points (Window in LinTrace.tla), a bulk failure is attributed to one only if its trigger fired and every violated rule is among its symptoms; in the free-running rounds collector segments exclude foreground calls so that the known windows cannot open (collector vs flusher and collector vs collector remain unconstrained).",
   ref="DESIGN.md §3.6, §6 C06"),
 "C03": dict(engine="crash", technique="crash-image enumeration from strace logs of the real process + real recovery on every image + TLC trace validation against Durable.tla (CrashTrace.tla); continuations judged by StoreTrace.tla / FsckTrace.tla", category="model_checking",
   text="TLC-generated histories (flush-heavy, with GC cycles, Close/reopen) run in a child process under strace; from the log of its file-system calls (no source hooks) every intermediate directory image is rebuilt, plus byte prefixes of every appended or overwritten region (the reconstruction is asserted byte-identical to the real final directory). On each image the real OpenStore runs, every key is read, and a continuation (writes, flush, primary-GC cycles with relocation, index GC, reopen by rescan) is executed. CrashTrace.tla decides with Durable.tla: the open succeeds and every key reads the value of the last completed Flush/Close/reopen or one acknowledged since (or the call in flight); the continuation must behave as C01 (StoreTrace) and leave consistent files (FsckTrace F1-F5).",
   note="process crash only (what a completed system call wrote survives; no fsync model); quick tier samples ~110 images per scenario, thorough enumerates all images and all byte prefixes; continuation failures on images whose crash tore an append to a primary file are attributed to the known finding KF-C03-torn-primary-tail (recovery itself is still judged on those images).",
   ref="DESIGN.md §2.4, §3.5, §6 C03"),
 "C10": dict(engine="crash", technique="legacy stores written by the harness, upgraded by the real OpenStore in a child under strace; every intermediate image reopened by the real code; TLC trace validation (CrashTrace.tla, mode upgrade) + continuation by StoreTrace/FsckTrace",
   text="The harness writes legacy-format stores itself (version-2 single-file index behind its header, unversioned single-file primary, freelist pending or already applied; contents, freed records, bit sizes and chunk limits from 30 B - a chunk per record - to 1 GiB drawn per scenario). The upgrading open runs under strace; the completed upgrade and EVERY intermediate image (index chunking, freelist application, primary chunking, header writes, per-file remapping with its .tmp/.remapped protocol) is opened again by the real code. TLC decides: the open succeeds and the contents equal the legacy map exactly; then the store must behave as C01 through a continuation with GC cycles.",
   note="legacy files are produced by repackaging a store built with 1 GiB limits (same record encoding); corrupted legacy files (entries without primary data) are not generated in this revision, so the 'dropped rather than mis-pointed' clause is only exercised through freed records.",
   ref="DESIGN.md §3.11, §6 C10"),
 "C17": dict(engine="life", technique="TLC model checking of Lifecycle.tla (stop handshakes) + park-and-close runs on a real started store at every background yield point + TLC trace validation of process observations (LifecycleTrace.tla)",
   text="Lifecycle.tla models the stop handshakes of Close with the flusher and the outer/inner goroutines of both collectors (AllStopped, NoStepAfterClose, and RelocationFlushed - which the delivered Close order violated). For every yield point of the index-GC cycle, the primary-GC cycle (incl. relocation and freelist hand-over) and the commit, a real store started with 1 ms flusher and collectors has its OWN background goroutine parked there (global verif hook), Close is issued, the goroutine released; also 5 kinds of failing opens and open/work/close repetition. LifecycleTrace.tla judges the observations: Close returns (and not while a cycle is still running), no descriptor of the process on the store directory, no goroutine with a frame in the module 150 ms later, directory fingerprint (names, sizes, hashes, mtimes) unchanged after Close returned, reopen succeeds with the acknowledged contents even after the reopened store's collectors ran.",
   note="timing-based parking: a scenario in which the point was not reached within 1.5 s still runs (unparked) and is counted as such in the evidence; goroutine attribution by stack frames; one scenario per harness process (global hook).",
   ref="DESIGN.md §3.10, §6 C17"),
}

NOT_APPLICABLE = [
 {"property_id": "C16", "reason": "Go-memory-model data races exist below the granularity of any TLA+ interleaving of atomic steps and cannot be observed through add-only hooks; deciding it would need the race detector, i.e. a different technique (DESIGN.md §7)."},
]

ALL = ["C%02d" % i for i in range(1, 18)]
PENDING_REASON = "not yet bound to the specification in this revision of /verif (engine under construction, see DESIGN.md §10); no claim is made"

def main():
    checks = []
    for pid in ALL:
        c = CHECKS.get(pid)
        if not c:
            continue
        checks.append({
            "property_id": pid,
            "quick_cmd": "VERIF_TIER=quick ./check %s" % pid,
            "thorough_cmd": "VERIF_TIER=thorough ./check %s" % pid,
            "evidence_file": "/verif/evidence/%s.json" % pid,
            "replay_cmd_template": "./check %s --replay {path}" % pid,
            "engine": c["engine"],
            "level_claimed": {"category": c.get("category", "model_checking"), "text": c["text"], "design_ref": c["ref"]},
            "level_note": c["note"],
            "technique": c["technique"],
        })
    na = list(NOT_APPLICABLE)
    claimed = {c["property_id"] for c in checks} | {n["property_id"] for n in na}
    for pid in ALL:
        if pid not in claimed:
            na.append({"property_id": pid, "reason": PENDING_REASON})
    hooks_commits = subprocess.run(["git", "-C", "/repo", "log", "--format=%H %s", "--grep=^verif:"], stdout=subprocess.PIPE, text=True).stdout.strip().splitlines()
    m = {
        "version": 1,
        "setup_cmd": "./setup.sh",
        "hooks": {"guard": "verif (Go build tag)", "enable": "go build -tags verif (the harness in /verif/harness is built with -tags verif against /repo via a replace directive)",
                  "baseline_off_cmd": BASELINE_OFF, "source_commits": [h.split()[0] for h in hooks_commits], "add_only": True},
        "engines": [
            {"name": "seq", "path": "harness/cmd/vrun/seq.go + harness/internal/fsckread + spec/KV.tla + spec/StoreTrace.tla + tools/seqeng.py", "serves_properties": ["C01", "C02", "C04", "C07", "C09", "C11", "C13"], "kind_free_text": "TLC-generated call histories executed on a real store.Store; TLC total monitor over the recorded trace"},
            {"name": "bstore", "path": "harness/cmd/vrun/bstore.go + spec/Blockstore.tla + spec/BlockstoreTrace.tla", "serves_properties": ["C15"], "kind_free_text": "TLC state-graph replay on real HashedBlockstore + TLC trace monitor"},
            {"name": "flushrate", "path": "harness/cmd/vrun/flushrate.go + harness/internal/sched + spec/FlushRate.tla + spec/FlushRateTrace.tla", "serves_properties": ["C12"], "kind_free_text": "TLC schedules replayed by a cooperative scheduler at yield points (build tag verif); TLC trace monitor"},
            {"name": "conc", "path": "harness/cmd/vrun/conc.go + harness/cmd/vrun/stress.go + harness/internal/sched + spec/StoreConc.tla + spec/StoreConcGC.tla + spec/LinTrace.tla + spec/RegTrace.tla", "serves_properties": ["C05", "C06"], "kind_free_text": "TLC schedules replayed by a cooperative scheduler; TLC linearizability / atomic-register monitors over recorded histories"},
            {"name": "crash", "path": "harness/cmd/vrun/crash.go + harness/cmd/vrun/legacy.go + harness/internal/straceimg + spec/Durable.tla + spec/CrashTrace.tla + tools/c03.py", "serves_properties": ["C03", "C09", "C10"], "kind_free_text": "strace-based crash-image enumeration of the real process (no hooks), real recovery on every image, TLC trace monitor"},
            {"name": "life", "path": "harness/cmd/vrun/life.go + spec/Lifecycle.tla + spec/LifecycleTrace.tla + tools/c17.py", "serves_properties": ["C17"], "kind_free_text": "park-and-close on a real started store via the global verif hook; TLC monitor over descriptor / goroutine / directory observations"},
            {"name": "fcache", "path": "harness/cmd/vrun/fcache.go + spec/FileCache.tla + spec/FileCacheTrace.tla", "serves_properties": ["C14"], "kind_free_text": "TLC state-graph replay on real FileCache + TLC trace monitor"},
            {"name": "reclist", "path": "harness/cmd/vrun/reclist.go + spec/RecordList.tla + spec/RecordListTrace.tla", "serves_properties": ["C08"], "kind_free_text": "TLC state-graph replay on real index.Index + TLC trace monitor"},
        ],
        "checks": checks,
        "not_applicable": sorted(na, key=lambda n: n["property_id"]),
        "notes": "Every verdict is made by TLC on observations recorded from the real code (DESIGN.md §2.5). exit 2 = infrastructure failure, never a verdict.",
    }
    with open(os.path.join(VERIF, "MANIFEST.json"), "w") as f:
        json.dump(m, f, indent=1)
    try:
        import jsonschema
        jsonschema.validate(m, json.load(open("/root/.vp/MANIFEST.schema.json")))
        print("MANIFEST.json valid,", len(checks), "checks")
    except ImportError:
        print("MANIFEST.json written (jsonschema not importable here)")

if __name__ == "__main__":
    main()
