#!/usr/bin/env python3
"""Regenerates /verif/MANIFEST.json from the table below and validates it."""
import json, os, subprocess, sys
VERIF = os.path.dirname(os.path.dirname(os.path.abspath(__file__)))

BASELINE_OFF = ("cd /repo && go test -mod=mod -vet=off -count=1 -timeout 25m ./...")

CHECKS = {
 "C08": dict(engine="reclist", technique="TLC model checking of RecordList.tla + replay of every reachable model state on the real index + TLC trace validation (RecordListTrace.tla)",
   text="RecordList.tla (a transcription of Index.Put/Update/Remove/Get and the record-list scan) is model-checked exhaustively for Sorted/PrefixFree/OwnPrefix/Resolves/Count/TouchesOnlyAddressed over all keys of a small alphabet; every reachable model state is then reached on a real index.Index (both pool and disk read paths) and TLC evaluates the same predicates on the REAL record list and REAL Index.Get results after every operation; seeded random histories over larger alphabets extend the bound.",
   note="small-scope hypothesis for the exhaustive part (binary/ternary alphabets, key length 3-4); in-memory primary; TLC and the Json/IOUtils community modules are trusted.",
   ref="DESIGN.md §3.2, §6 C08"),
 "C14": dict(engine="fcache", technique="TLC model checking of FileCache.tla + replay of every reachable model transition on the real FileCache + TLC trace validation (FileCacheTrace.tla)",
   text="FileCache.tla (a transcription of filecache.go: LRU list, per-entry refcounts, the removed map, capacity 0 pass-through) is model-checked exhaustively for LentOpen/ClosedOnce/ReleasedClosed/RefsOK/Bound/NoPanic/NoSpuriousErr; every reachable transition of the model is executed on a real FileCache over real files and TLC judges, after every call, the observed usability of every handle (Stat), the descriptor count from /proc/self/fd, Len/Cap, errors and panics with policy-independent rules; seeded random histories over more names/capacities extend the bound.",
   note="small-scope hypothesis for the exhaustive part (2-3 names, capacities 0..3, <= 8 calls); a closed handle is observed through Stat failing; TLC and community modules trusted. Concurrent use is covered only by the single-lock argument in DESIGN.md, not by this check.",
   ref="DESIGN.md §3.8, §6 C14"),
 "C15": dict(engine="bstore", technique="TLC model checking of Blockstore.tla + replay of every reachable model transition on the real HashedBlockstore + TLC trace validation (BlockstoreTrace.tla)",
   text="Blockstore.tla (the blockstore contract over an immutable store: first write wins, aliasing by multihash, typed not-found, cancelled contexts without side effects, hash-on-read on/off over matching and mismatching bytes) is model-checked; every reachable transition is executed on a real HashedBlockstore and TLC judges each logged outcome plus a post-call probe (Has, GetSize, Get of every multihash); seeded random histories over 4 hash functions, 3 codecs, CIDv0/v1 and block sizes 0 B..1 KiB extend the bound.",
   note="small-scope hypothesis for the exhaustive part; identity multihashes and digests shorter than 4 bytes are outside the property (key constraints of C01); TLC and community modules trusted.",
   ref="DESIGN.md §3.9, §6 C15"),
}

NOT_APPLICABLE = [
 {"property_id": "C16", "reason": "Go-memory-model data races exist below the granularity of any TLA+ interleaving of atomic steps and cannot be observed through add-only hooks; deciding it would need the race detector, i.e. a different technique (DESIGN.md §7)."},
]

ALL = ["C%02d" % i for i in range(1, 18)]
PENDING_REASON = "not yet bound to the specification in this revision of /verif (engine under construction, see DESIGN.md §10); no claim is made"

def main():
    checks = []
    for pid in ALL:
        c = CHECKS.get(pid)
        if not c:
            continue
        checks.append({
            "property_id": pid,
            "quick_cmd": "VERIF_TIER=quick ./check %s" % pid,
            "thorough_cmd": "VERIF_TIER=thorough ./check %s" % pid,
            "evidence_file": "/verif/evidence/%s.json" % pid,
            "replay_cmd_template": "./check %s --replay {path}" % pid,
            "engine": c["engine"],
            "level_claimed": {"category": c.get("category", "model_checking"), "text": c["text"], "design_ref": c["ref"]},
            "level_note": c["note"],
            "technique": c["technique"],
        })
    na = list(NOT_APPLICABLE)
    claimed = {c["property_id"] for c in checks} | {n["property_id"] for n in na}
    for pid in ALL:
        if pid not in claimed:
            na.append({"property_id": pid, "reason": PENDING_REASON})
    hooks_commits = subprocess.run(["git", "-C", "/repo", "log", "--format=%H %s", "--grep=^verif:"], stdout=subprocess.PIPE, text=True).stdout.strip().splitlines()
    m = {
        "version": 1,
        "setup_cmd": "./setup.sh",
        "hooks": {"guard": "verif (Go build tag)", "enable": "go build -tags verif (the harness in /verif/harness is built with -tags verif against /repo via a replace directive)",
                  "baseline_off_cmd": BASELINE_OFF, "source_commits": [h.split()[0] for h in hooks_commits], "add_only": True},
        "engines": [
            {"name": "bstore", "path": "harness/cmd/vrun/bstore.go + spec/Blockstore.tla + spec/BlockstoreTrace.tla", "serves_properties": ["C15"], "kind_free_text": "TLC state-graph replay on real HashedBlockstore + TLC trace monitor"},
            {"name": "fcache", "path": "harness/cmd/vrun/fcache.go + spec/FileCache.tla + spec/FileCacheTrace.tla", "serves_properties": ["C14"], "kind_free_text": "TLC state-graph replay on real FileCache + TLC trace monitor"},
            {"name": "reclist", "path": "harness/cmd/vrun/reclist.go + spec/RecordList.tla + spec/RecordListTrace.tla", "serves_properties": ["C08"], "kind_free_text": "TLC state-graph replay on real index.Index + TLC trace monitor"},
        ],
        "checks": checks,
        "not_applicable": sorted(na, key=lambda n: n["property_id"]),
        "notes": "Every verdict is made by TLC on observations recorded from the real code (DESIGN.md §2.5). exit 2 = infrastructure failure, never a verdict.",
    }
    with open(os.path.join(VERIF, "MANIFEST.json"), "w") as f:
        json.dump(m, f, indent=1)
    try:
        import jsonschema
        jsonschema.validate(m, json.load(open("/root/.vp/MANIFEST.schema.json")))
        print("MANIFEST.json valid,", len(checks), "checks")
    except ImportError:
        print("MANIFEST.json written (jsonschema not importable here)")

if __name__ == "__main__":
    main()
