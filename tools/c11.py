"""C11 - GC reclaims space in bounded cycles.  Histories from KV.tla are extended with a
'kill' phase (remove / overwrite keys, flush) and a run of GC cycles; C11Trace.tla judges the
projections of the real files and the reported storage sizes."""
import json, os, random
import vlib, seqeng
from c01 import witnesses, report_bad


def shapes(rng, hist, nk):
    """four scenario shapes built on one generated history"""
    keys = list(range(1, nk + 1))
    out = []
    gc_round = lambda lu, sf: [{"op": "prigc", "lowUse": lu, "deadline": 0}, {"op": "idxgc", "scanFree": sf, "deadline": 0}, {"op": "flush"}]
    # S1: every key removed -> every non-current file is dead
    # (in half of the histories the removals are committed by Close + reopen instead of Flush: what Close flushes - the
    # freelist pool included - must reach the files just the same)
    ops = list(hist) + [{"op": "rem", "k": k} for k in keys] + [{"op": "flush"} if rng.random() < 0.5 else {"op": "reopen", "snap": "keep"}]
    for i in range(5):
        ops += gc_round(101, i % 2 == 0)
    out.append(("all-removed", ops))
    # S2: a subset removed / overwritten
    sub = rng.sample(keys, max(1, nk // 2))
    ops = list(hist) + [({"op": "rem", "k": k} if rng.random() < 0.5 else {"op": "put", "k": k, "v": rng.choice([3, 4, 5])}) for k in sub] + [{"op": "flush"}]
    for i in range(5):
        ops += gc_round(rng.choice([85, 101]), i % 2 == 1)
    out.append(("subset-killed", ops))
    # S3: drain with threshold 0
    sub = rng.sample(keys, max(1, nk // 2))
    ops = list(hist) + [{"op": "put", "k": k, "v": rng.choice([3, 4, 5])} for k in sub] + [{"op": "flush", "mark": "drainstart"}]
    for i in range(12):
        ops += [{"op": "prigc", "lowUse": 0, "deadline": 0}, {"op": "flush"}]
        if i % 3 == 2:
            ops += [{"op": "idxgc", "scanFree": True, "deadline": 0}, {"op": "flush"}]
    out.append(("drain", ops))
    # S5: a cycle stopped by its time limit while it reads the freelist (after d checks), then complete cycles: what the
    #     stopped cycle left behind (.gc file, marked records, visited set) must not keep the complete ones from reclaiming
    ops = list(hist) + [{"op": "flush"}] + gc_round(101, False) + [{"op": "rem", "k": k} for k in keys] + [{"op": "flush"}]
    ops += [{"op": "prigc", "lowUse": 101, "deadline": rng.choice([1, 2, 3, 4, 5, 6])}]
    for i in range(5):
        ops += gc_round(101, i % 2 == 0)
    out.append(("interrupted", ops))
    # S6: progress under a time limit that lets a cycle finish exactly ONE file: after a draining complete cycle the present
    #     keys are removed one at a time, each removal flushed and followed by a cycle with limit 2 (one freelist entry = two
    #     checks; the check after the first processed file fails).  Exactly one file is unvisited at each of those cycles -
    #     the one the removal affected - so on the code as it is every file that has become dead has been processed when
    #     the phase ends.  (A cycle that forgets the file it processed when the limit strikes never gets past it.)
    present = set()
    for o in hist:
        if o["op"] == "put":
            present.add(o["k"])
        elif o["op"] == "rem":
            present.discard(o["k"])
    ops = list(hist) + [{"op": "flush"}] + gc_round(101, False)
    for k in sorted(present):
        ops += [{"op": "rem", "k": k}, {"op": "flush"}, {"op": "prigc", "lowUse": 101, "deadline": 2}]
    ops += [{"op": "flush", "mark": "limitedend"}]
    out.append(("one-file-per-cycle", ops))
    # S4: fixed point of idle rounds
    ops = list(hist) + [{"op": "flush"}, {"op": "gcfix", "n": 8, "lowUse": 85, "scanFree": True}]
    out.append(("fixed-point", ops))
    return out


def run(pid):
    rep = vlib.Report(pid)
    rng = random.Random(vlib.seed())
    vlib.build_harness()
    thorough = vlib.tier() == "thorough"
    nhist, depth = (1500, 40) if thorough else (160, 30)
    nk = 6
    consts = seqeng.kv_consts(nk, ["put"] * 6 + ["rem"] * 2 + ["flush"] * 3, depth)
    hs, r = seqeng.gen_histories(consts, "sim", num=nhist, seed=vlib.seed())
    rep.cov["states"] = max(1, r.distinct)
    rep.cov["transitions"] = max(1, r.states)
    cfgl = seqeng.sweep(rng, 32, primaries=("mh",), limits=(30, 70, 70, 200), imm=(False,))
    scens, kinds = [], []
    for i, h in enumerate(hs):
        c = dict(cfgl[i % len(cfgl)], proj=True, sizes=True, probe="end")
        for kind, ops in shapes(rng, h, nk):
            scens.append({"cfg": c, "ops": ops})
            kinds.append(kind)
    vlib.log("C11: %d histories x 6 shapes = %d scenarios" % (len(hs), len(scens)))
    by, n = seqeng.run_and_judge(scens, "c11", monitors=[("C11Trace", None), ("StoreTrace", None)])
    # contents must of course survive all of this too (StoreTrace); attribute only C11Trace rules and crashes here
    mine = {}
    for t, items in by.items():
        own = [x for x in items if x["rule"] in ("dead-primary-file-not-released", "dead-index-file-not-released", "low-use-file-not-drained",
                                                   "gc-increased-storage", "no-fixed-point", "process-crash-or-hang",
                                                   "emptied-oldest-primary-file-not-unlinked", "emptied-oldest-index-file-not-unlinked",
                                                   "dead-primary-file-not-released-by-time-limited-cycles", "gc-wrote-unreferenced-record")]
        if own:
            mine[t] = own
    report_bad(rep, scens, mine)
    rep.cov["failures_not_attributed_to_this_property"] = len(by) - len(mine)
    rep.cov["evaluations"] = n
    rep.cov["traces_validated_against_impl"] = len(scens)
    for k, v in seqeng.LAST_SUMMARY.items():
        if k.startswith("proj"):
            rep.cov[k] = v
    rep.cov["samples"] = [scens[0]["ops"][-14:], scens[2]["ops"][-10:]]
    ws = witnesses(pid)
    if ws:
        by3, _ = seqeng.run_and_judge(ws, "wit", monitors=[("C11Trace", None)])
        report_bad(rep, ws, by3)
    rep.cov["exhaustive"] = False
    rep.cov["distinct_nontrivial"] = len(scens)
    rep.cov["rule"] = ("TLC -simulate histories of KV.tla (depth %d, 6 keys in adjacent buckets, file limits 30-200 B so data spreads over many files) each continued in four ways: all keys removed + 5 GC rounds; "
                       "a subset removed/overwritten + 5 rounds; a subset overwritten + 12 drain cycles with threshold 0; 8 idle rounds for the fixed point. "
                       "Non-trivial: every scenario has non-current primary and index files before the GC phase (counted by the proj_multi_* figures)" % depth)
    rep.assumptions = ["TLC + Json module", "independent reader fsckread", "bounds: a dead file is released within 2 completed cycles, a low-use file within ceil(live/2)+3 cycles (measured: 1 and ceil(live/2)+1)",
                       "the empty freelist file re-created by every hand-over is exempt from the 'nothing more is written' clause",
                       "gc-wrote-unreferenced-record is evaluated for cycles without a time limit that start from a flushed point (a cycle cut short while it reads the freelist may legitimately relocate a record that is already superseded)"]
    return rep.finish()


def replay(pid, path):
    rep = vlib.Report(pid, replay=True)
    with open(path) as f:
        obj = json.load(f)
    vlib.build_harness()
    obj["scenario"]["cfg"].update(proj=True, sizes=True)
    by, n = seqeng.run_and_judge([obj["scenario"]], "replay", monitors=[("C11Trace", None)])
    report_bad(rep, [obj["scenario"]], by)
    print("replay: %d offending lines" % sum(len(v) for v in by.values()))
    return rep.finish()
