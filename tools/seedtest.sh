#!/bin/bash
# Development aid (not a registered check): apply a seeded change to a scratch worktree of /repo's HEAD
# and run the given checks against it.   usage: seedtest.sh <patch.diff> <ID> [<ID>...]
patch=$1; shift
name=$(basename $(dirname $patch)).$$
wt=/tmp/seedwt.$name; rm -rf $wt
git -C /repo worktree add -q --detach $wt HEAD || exit 2
if ! git -C $wt apply $patch 2>/tmp/seedwt.err; then
  if ! (cd $wt && patch -p1 --fuzz=3 -s < $patch); then echo "SEED $patch: DOES NOT APPLY"; git -C /repo worktree remove --force $wt; exit 2; fi
fi
for id in "$@"; do
  out=$(cd /verif && VERIF_REPO=$wt ./check $id 2>&1 | grep -E "^(OK|VIOLATION|INFRA|KNOWN|\()" | head -3 | cut -c1-230 | tr '\n' ' ')
  echo "SEED $(basename $(dirname $patch)) [$id]: $out"
done
git -C /repo worktree remove --force $wt
