"""C07 (fsck invariant F1-F5) and C13 (freelist exactly once, file-level form F7 + F4):
Fsck.tla evaluated by TLC on projections of the REAL files, produced by an independent
reader at every quiescent point of histories generated from KV.tla."""
import json, os, random
import vlib, seqeng
from c01 import witnesses, report_bad

MIX = {
 "C07": ["put"] * 5 + ["rem"] * 2 + ["flush"] * 3 + ["idxgc"] * 2 + ["prigc"] * 2 + ["reopen", "rebits", "iter"],
 "C13": ["put"] * 6 + ["rem"] * 3 + ["flush"] * 3 + ["prigc"] * 3 + ["idxgc", "reopen", "iter"],
}


def run(pid):
    rep = vlib.Report(pid)
    rng = random.Random(vlib.seed())
    vlib.build_harness()
    thorough = vlib.tier() == "thorough"
    mons = [("FsckTrace", {"VRULES": pid})]
    total = 0
    stats = {}

    def acc():
        for k, v in seqeng.LAST_SUMMARY.items():
            if k.startswith("proj"):
                stats[k] = stats.get(k, 0) + v
    # 1. exhaustive short histories (every quiescent state reachable in <= n calls)
    blen = 5 if thorough else 4
    consts = seqeng.kv_consts(2, ["put", "rem", "flush", "prigc", "idxgc"], blen, nv=2, deadlines=(0, 2), lowuses=(0, 101))
    hs, r = seqeng.gen_histories(consts, "bfs", timeout=1500)
    rep.add_model(r)
    keys = [[1, 7, 7, 0, 9, 0, 3, 3], [1, 7, 7, 0, 9, 0, 3, 4]]
    cfgs = [dict(primary="mh", bits=8, il=30, pl=30, imm=False, keys=keys, vals=["empty", "b5"], proj=True, probe="end"),
            dict(primary="mh", bits=9, il=70, pl=70, imm=False, keys=keys, vals=["a1", "c40"], proj=True, probe="end")]
    scens = [{"cfg": c, "ops": h + [{"op": "flush"}]} for c in (cfgs if thorough else cfgs[:1]) for h in hs]
    vlib.log("%s: %d exhaustive histories of length %d" % (pid, len(scens), blen))
    by, n = seqeng.run_and_judge(scens, "bfs", monitors=mons)
    acc()
    report_bad(rep, scens, by)
    rep.cov["evaluations"] += n
    total += len(scens)
    rep.cov["samples"] = [scens[len(scens) // 2]["ops"]]
    # 2. simulate walks
    nsim, depth = (10000, 80) if thorough else (1000, 50)
    consts = seqeng.kv_consts(6, MIX[pid], depth, deadlines=(0, 0, 1, 2, 3, 5), lowuses=(0, 50, 85, 101), bitsset=(8, 9, 12, 16))
    hs2, r2 = seqeng.gen_histories(consts, "sim", num=nsim, seed=vlib.seed())
    rep.cov["transitions"] += r2.states
    cfgl = seqeng.sweep(rng, 64, limits=(30, 30, 70, 200, 1 << 30))
    for c in cfgl:
        c["proj"] = True
        c["probe"] = "end"
    sc2 = [{"cfg": cfgl[i % len(cfgl)], "ops": h + [{"op": "flush"}]} for i, h in enumerate(hs2)]
    by2, n2 = seqeng.run_and_judge(sc2, "sim", monitors=mons)
    acc()
    report_bad(rep, sc2, by2)
    rep.cov["evaluations"] += n2
    total += len(sc2)
    rep.cov["samples"].append(sc2[0]["ops"][:14])
    # 2b. (C07) recovered states: a few traced histories, every sampled crash image recovered by the real OpenStore and
    #     continued (writes, flush, GC cycles, reopen by rescan); the F-rules are evaluated on the projections of the
    #     continuation.  (C03 does this at length; here only failures of an F-rule are reported.)
    if pid == "C07" and rep.violations:
        # the verdict is settled by the crash-free parts; recovering and continuing hundreds of images of a store whose files
        # are already inconsistent (and confirming each failure on a second trace) only delays it - seen with seed C07-f,
        # whose run was still confirming after 20 minutes
        vlib.log("C07: recovered-state part skipped, the crash-free parts already report %d violations" % len(rep.violations))
        rep.cov["recovered_state_part_skipped_because_the_verdict_was_settled"] = True
    elif pid == "C07":
        import c03
        cs, rc = c03.scenarios_c03(rng, 24 if thorough else 6, 20, 400 if thorough else 70, False)
        rep.cov["transitions"] += rc.states
        vc, kc, _ = c03.run_crash(rep, cs, "c07")
        for what, obj in vc:
            if any(str(r).startswith("F") for r in obj.get("rules", [])):
                rep.violation("recovered state: " + what, obj)
        rep.cov["crash_images_recovered_and_projected"] = rep.cov.get("crash_images", 0)
        total += len(cs)
    # 3. (C13) interleavings: foreground calls x commit (StoreConc.tla schedules) and freelist Put / Flush / hand-over
    #    (a primary-GC cycle parked at each of its yield points, incl. inside ToGC between rename and reopen, while a call
    #    supersedes a location and a commit runs); F7 + F4 on the projection of the real files when everything has finished
    if pid == "C13":
        import conceng
        stops = conceng.CLIENT_STOPS + conceng.FLUSH_STOPS + conceng.PGC_STOPS
        consts = {"Threads": '{"t1", "t2"}', "InitPresent": '{"A", "B"}', "Immutable": "FALSE", "WithFlusher": "TRUE", "AllowUpdateVsRemove": "FALSE"}
        cs, g, nexp = vlib.gen_scenarios("MCStoreConc", "MCStoreConc", consts, edges=True, key=lambda s: s["schedule"])
        rep.cov["transitions"] += g.states
        # two writers of ONE key free the old location twice / never free the loser's: known finding KF-C13-same-key-writers
        cs = [c for c in cs if not (c["prog"]["t1"]["k"] == c["prog"]["t2"]["k"] and c["prog"]["t1"]["op"] != "get" and c["prog"]["t2"]["op"] != "get")]
        cs = rng.sample(cs, min(len(cs), 4000 if thorough else 700))
        for c in cs:
            c.update(stops=stops, init=["A", "B"], imm=False, proj=True, il=64, pl=64)
        probes = []
        for i in range(1, len(conceng.PGC_STOPS) + 1):
            for op in ({"op": "put", "k": "A", "v": 3}, {"op": "rem", "k": "B", "v": 0}, {"op": "put", "k": "C", "v": 1}):
                for order in (["c", "f"], ["f", "c"]):
                    probes.append({"prog": {"c": op}, "init": ["A", "B"], "imm": False, "stops": stops, "proj": True, "il": 30, "pl": 30, "lowUse": 0,
                                   "setup": [{"op": "put", "k": "A", "v": 2}, {"op": "flush"}, {"op": "put", "k": "B", "v": 2}],
                                   "schedule": ["pg"] * i + [order[0]] * 12 + [order[1]] * 12 + ["pg"] * 40 + ["c"] * 12 + ["f"] * 12})
        allc = cs + probes
        byc = conceng.judge(rep, allc, "c13", monitors=(("FsckTrace", {"VRULES": "C13"}),))
        total += len(allc)
        rep.cov["concurrent_histories_projected"] = len(allc)
        for t, rules in byc.items():
            rep.violation("rules %s in the files after a concurrent history" % ",".join(rules), {"engine": "conc", "scenario": allc[t], "rules": rules})
        for w in vlib.known_findings().get("findings", []):
            if w.get("property") == pid and str(w.get("witness", "")).endswith("-conc.json"):
                sc = json.load(open(os.path.join(vlib.VERIF, w["witness"])))["scenario"]
                byw = conceng.judge(rep, [sc], "kf", monitors=(("FsckTrace", {"VRULES": "C13"}),))
                if byw and set(byw[0]) <= set(w["symptom"]["rules"]):
                    rep.known.append("%s: %s (witness %s still fails with %s)" % (w["id"], w["title"], w["witness"], ",".join(byw[0])))
                elif byw:
                    rep.violation("pinned witness of %s fails with an unlisted symptom %s" % (w["id"], byw[0]), {"engine": "conc", "scenario": sc, "rules": byw[0]})
                else:
                    vlib.log("known finding %s no longer reproduces on its witness" % w["id"])
    # 4. (C13) the freelist as a concurrent component: FreeList.tla (Put / Flush in two segments / ToGC in three / the
    #    collector reading and removing .gc) model-checked for ExactlyOnce; every transition of the model WITH the lock and
    #    a sample of the transitions of the model WITHOUT it (interleavings the lock forbids: on the unchanged code those
    #    steps block) replayed on a real freelist.FreeList; FreeListTrace.tla judges what was presented to the collector
    if pid == "C13":
        total += freelist_part(rep, rng, thorough)
    ws = witnesses(pid)
    if ws:
        for w in ws:
            w["cfg"]["proj"] = True
        by3, _ = seqeng.run_and_judge(ws, "wit", monitors=mons)
        report_bad(rep, ws, by3)
        total += len(ws)
    rep.cov["traces_validated_against_impl"] = total
    rep.cov.update(stats)
    rep.cov["exhaustive"] = True
    rep.cov["distinct_nontrivial"] = stats.get("proj_multi_index_files", 0) + stats.get("proj_deleted_primary_records", 0)
    rep.cov["rule"] = ("projections of the real directory taken by the independent reader at every quiescent point (after Flush, after every GC cycle, after reopen / bit-size change, after iteration) "
                       "of all histories of length %d over put/remove/flush/index-GC/primary-GC and of TLC -simulate walks of depth %d under 64 seeded configurations; "
                       "counted as non-trivial: projections with >= 2 index files plus projections with deleted primary records (see the proj_* counters)" % (blen, depth))
    rep.assumptions = ["TLC + Json module", "the independent reader harness/internal/fsckread (hand-written, shares no code with the repository)",
                       "crash-recovered states are judged by the crash engine (C03), concurrent quiescent states by C05/C06"]
    return rep.finish()


FL_SHAPES = [([[1, 2], [3]], 2, 2), ([[1], [2]], 2, 1), ([[1, 2, 3]], 1, 2)]


def fl_judge(rep, scens, label):
    d = vlib.subdir("flist." + label)
    sf = os.path.join(d, "scen.ndjson")
    vlib.write_ndjson(sf, scens)
    files, summ = vlib.run_harness("flist", sf, os.path.join(d, "trace"))
    bad, n, _ = vlib.validate_traces("FreeListTrace", "FreeListTrace.cfg", files)
    rep.cov["evaluations"] += n
    for c in summ.get("crashed", []):
        rep.violation("the harness process dies or hangs while executing this freelist schedule alone", {"engine": "flist", "scenario": scens[c["t"]], "rules": ["process-crash-or-hang"]})
    seen = set()
    for b in bad:
        if b["t"] in seen:
            continue
        seen.add(b["t"])
        rules = sorted({x["rule"] for x in bad if x["t"] == b["t"]})
        rep.violation("freelist component: rules %s" % ",".join(rules), {"engine": "flist", "scenario": scens[b["t"]], "rules": rules})
    for f in files:
        os.unlink(f)
    return summ


def freelist_part(rep, rng, thorough):
    scens = []
    nlocked = 0
    for progs, nf, ng in (FL_SHAPES if thorough else FL_SHAPES[:2]):
        defs = {"Progs": "<< " + ", ".join("<<" + ", ".join(str(e) for e in p) + ">>" for p in progs) + " >>"}
        consts = {"NFlush": nf, "NGC": ng, "Locking": "TRUE"}
        r = vlib.tlc_must("MCFreeList", "MCFreeList_mc.cfg", consts=consts, defs=defs, timeout=1500)
        if r.violated:
            raise vlib.Infra("FreeList.tla violates ExactlyOnce with the lock - replay the counter-example first:\n" + r.out[-2500:])
        rep.add_model(r)
        g = vlib.tlc_must("MCFreeList", "MCFreeList_edges.cfg", consts=consts, defs=defs, timeout=1500)
        a = vlib.drop_prefixes(g.printed("SCN"), key=lambda s: s["schedule"])
        g2 = vlib.tlc_must("MCFreeList", "MCFreeList_edges.cfg", consts=dict(consts, Locking="FALSE"), defs=defs, timeout=1500)
        b = vlib.drop_prefixes(g2.printed("SCN"), key=lambda s: s["schedule"])
        if not thorough:
            b = rng.sample(b, min(len(b), 400))
        nlocked += len(a)
        scens += [{"progs": progs, "nflush": nf, "ngc": ng, "schedule": s["schedule"]} for s in a + b]
    summ = fl_judge(rep, scens, "c13")
    rep.cov["freelist_component_schedules"] = len(scens)
    rep.cov["freelist_component_schedules_of_the_model_with_lock"] = nlocked
    rep.cov["freelist_component_steps_blocked_by_the_lock"] = summ.get("steps_blocked", 0)
    vlib.log("C13 freelist component: %d schedules (%d from the model with the lock), %d steps blocked" % (len(scens), nlocked, summ.get("steps_blocked", 0)))
    return len(scens)


def replay(pid, path):
    with open(path) as f:
        eng = json.load(f).get("engine")
    if eng == "crash":
        import c03
        return _replay_crash(pid, path)
    if eng == "flist":
        rep = vlib.Report(pid, replay=True)
        vlib.build_harness()
        fl_judge(rep, [json.load(open(path))["scenario"]], "replay")
        return rep.finish()
    if eng == "conc":
        import conceng
        rep = vlib.Report(pid, replay=True)
        vlib.build_harness()
        sc = json.load(open(path))["scenario"]
        byc = conceng.judge(rep, [sc], "replay", monitors=(("FsckTrace", {"VRULES": "C13"}),))
        for t, rules in byc.items():
            rep.violation("rules %s in the files after a concurrent history" % ",".join(rules), {"engine": "conc", "scenario": sc, "rules": rules})
        return rep.finish()
    return replay_seq(pid, path)


def _replay_crash(pid, path):
    import c03
    rep = vlib.Report(pid, replay=True)
    vlib.build_harness()
    viol, known, _ = c03.run_crash(rep, [json.load(open(path))["scenario"]], "replay")
    for what, o in viol:
        if any(str(r).startswith("F") for r in o.get("rules", [])):
            rep.violation("recovered state: " + what, o)
    print("replay: %d failing images" % len(viol))
    return rep.finish()


def replay_seq(pid, path):
    rep = vlib.Report(pid, replay=True)
    with open(path) as f:
        obj = json.load(f)
    vlib.build_harness()
    obj["scenario"]["cfg"]["proj"] = True
    by, n = seqeng.run_and_judge([obj["scenario"]], "replay", monitors=[("FsckTrace", {"VRULES": pid})])
    report_bad(rep, [obj["scenario"]], by)
    print("replay: %d offending lines" % sum(len(v) for v in by.values()))
    return rep.finish()
