"""C02, C04, C09 - all driven through the sequential store engine (KV.tla histories ->
real store -> StoreTrace.tla).  Each check generates only the maintenance operations its
property quantifies over and attributes a failure to its property only if the failure
disappears when those operations are taken out of the history."""
import json, os, random
import vlib, seqeng
from c01 import witnesses, report_bad

BASE_KEYS = [[1, 7, 7, 0, 9, 0, 3, 3], [1, 7, 7, 0, 9, 0, 3, 4], [2, 7, 7, 0, 9, 0, 3, 3]]

SPECS = {
 "C04": dict(
    own_ops={"idxgc", "prigc"},
    weights=["put"] * 5 + ["rem"] * 2 + ["flush"] * 3 + ["idxgc"] * 2 + ["prigc"] * 3 + ["reopen", "get", "iter"],
    bfs_weights=["put", "rem", "flush", "idxgc", "prigc"], bfs_nk=2, bfs_nv=2,
    deadlines=(0, 0, 1, 2, 3, 5), lowuses=(0, 50, 85, 101), bitsset=(8,),
    primaries=("mh", "mh", "mh", "mh", "cid"), limits=(30, 30, 70, 200, 1 << 30),
    what="GC cycles (index GC scan-free on/off, primary GC with low-use thresholds 0/50/85/101, deterministic time limits that stop a cycle at its n-th check) interleaved at arbitrary positions"),
 "C02": dict(
    own_ops={"reopen"},
    weights=["put"] * 6 + ["rem"] * 2 + ["flush"] * 4 + ["reopen"] * 3 + ["idxgc"] * 3 + ["prigc"] * 2 + ["get"],
    bfs_weights=["put", "rem", "flush", "reopen"], bfs_nk=2, bfs_nv=2,
    deadlines=(0, 0, 1, 2, 3, 5), lowuses=(0, 85), bitsset=(8,),
    primaries=("mh", "mh", "cid"), limits=(30, 70, 200, 1 << 30),
    what="Close/reopen at arbitrary positions with the saved snapshot kept, deleted or truncated; at every reopen both recovery paths are also run on copies of the closed directory and their bucket tables compared"),
 "C09": dict(
    own_ops={"reopen", "openwrong"},
    weights=["put"] * 5 + ["rem"] * 2 + ["flush"] * 2 + ["rebits"] * 3 + ["openwrong", "reopen", "idxgc", "prigc", "get"],
    bfs_weights=["put", "rem", "flush", "rebits"], bfs_nk=2, bfs_nv=2,
    deadlines=(0,), lowuses=(0, 85), bitsset=(8, 9, 12, 15, 16, 17),
    primaries=("mh", "mh", "cid"), limits=(30, 70, 200, 1 << 30),
    what="reopen with a different index bit size (pairs drawn from 8..17 in the quick tier, 8..24 in the thorough tier), refused opens with a different index / primary file-size limit followed by an open with the original settings"),
}


def fix_ops(cfg, ops):
    """fill in harness-level parameters that KV.tla leaves abstract"""
    out = []
    for o in ops:
        o = dict(o)
        if o["op"] == "openwrong":
            n = o.get("n", 1)
            which = (n - 1) % 2 + 1
            if n > 2:
                o["wb"] = 13      # the refused open also asks for another bit size (the harness takes 14 if the store has 13)
            if cfg["primary"] == "cid":
                which = 1
            if which == 1:
                o["il"] = 4096 if cfg["il"] == 1 << 30 else cfg["il"] + 8
            else:
                o["pl"] = 4096 if cfg["pl"] == 1 << 30 else cfg["pl"] + 8
        out.append(o)
    return out


def attribute(spec, scens, by):
    """keep failures that disappear when the property's own operations are removed;
    a failing line that IS one of those operations is attributed directly"""
    mine, other = {}, {}
    recheck = []
    for t, items in by.items():
        i, rules = seqeng.first_failure(items)
        ops = scens[t]["ops"]
        if i - 2 < len(ops) and ops[i - 2]["op"] in spec["own_ops"]:
            mine[t] = items
        else:
            recheck.append(t)
    if recheck:
        stripped = [seqeng.strip_ops(scens[t], spec["own_ops"]) for t in recheck]
        by2, _ = seqeng.run_and_judge(stripped, "attr")
        for j, t in enumerate(recheck):
            (other if j in by2 else mine)[t] = by[t]
    return mine, other


def run(pid):
    spec = SPECS[pid]
    rep = vlib.Report(pid)
    rng = random.Random(vlib.seed())
    vlib.build_harness()
    thorough = vlib.tier() == "thorough"
    bitsset = spec["bitsset"]
    if pid == "C09" and thorough:
        # (a real index has 2^bits buckets and every Close writes them out: 24 bits = 128 MiB per reopen, so the large sizes
        # get a batch of their own, below; the first thorough run with 8..24 everywhere did not finish in an hour)
        bitsset = tuple(range(8, 19)) + (20,)
    total = unattributed = 0
    # 0. (C04) the byte-accurate mechanism model with both collectors: Store.tla model-checked (Refines at every state, so a
    #    cycle never changes the contents), every transition executed on the real store (verdict: StoreTrace), the model's
    #    files compared with the projection of the real files after every flush and every cycle (StoreMTrace: conformance figure)
    if pid in ("C04", "C02"):
        mkeys = [[1, 7, 7, 0, 9, 0, 3, 3], [1, 7, 7, 0, 9, 0, 3, 4], [2, 7, 7, 0, 9, 0, 3, 3]]
        drift_total = checked_total = 0
        # C04: Store.tla with both collectors.  C02: StoreCrash.tla = Store.tla + Close/reopen through the snapshot or the
        # rescan (ReopenPathsAgree, SnapshotEqualsRescan model-checked; the reopen step replayed and compared by StoreMTrace)
        module, inv_names, want = ("MCStore", "Refines / PredictedPositionsExact / FreedOnce", ("idxgc", "prigc")) if pid == "C04" else \
                                  ("MCStoreCrash", "Refines / ReopenPathsAgree / NoLiveFreed / PureAgrees", ("reopen",))
        for pl, il, mc in ([(33, 30, 6), (70, 70, 6)] if thorough else [(33, 30, 5)]):
            consts = {"Vals": "{0, 5}", "PriLimit": pl, "IdxLimit": il, "MaxCalls": mc, "WithGC": "TRUE", "LowUses": "{0, 101}", "Deadlines": "{0, 1, 2}" if pid == "C04" and thorough else "{0}",
                      "IDeadlines": "{0, 1, 2, 3}" if pid == "C04" and thorough else "{0}"}   # (quick tier: time limits 1..5 for both collectors come with the long walks below)
            if pid == "C02":
                consts.update({"CommitOrder": '"pif"', "Faults": '{"reopen"}'})
            r0 = vlib.tlc_must(module, module + "_mc.cfg", consts=consts, timeout=3000)
            if r0.violated:
                raise vlib.Infra("the mechanism model violates %s - replay the counter-example first:\n" % inv_names + r0.out[-2500:])
            rep.add_model(r0)
            ms, g0, nexp = vlib.gen_scenarios(module, module, consts, edges=True, timeout=3000)
            ms = [m for m in ms if any(o["op"] in want for o in m["ops"])]
            mcfg = dict(primary="mh", bits=8, il=il, pl=pl, imm=False, keys=mkeys, vals=["empty", "b5"], proj=True, probe="end", cmp=(pid == "C02"))
            # (C02, quick tier: the comparison of both recovery paths on copies of the directory - two extra opens per reopen -
            # is made in every second history; the reopen itself and the model comparison happen in all)
            mcfg2 = dict(mcfg, cmp=False)
            msc = [{"cfg": mcfg if (thorough or i % 2 == 0) else mcfg2,
                    "ops": [dict(o, v=(1 if o.get("vlen") == 0 else 2)) if o["op"] == "put" else o for o in m["ops"]]} for i, m in enumerate(ms)]
            vlib.log("%s: mechanism model, limits %d/%d, <= %d calls: %d states, %d transitions, %d maximal histories with %s" % (pid, pl, il, mc, g0.distinct, nexp, len(msc), "/".join(want)))
            for i in range(0, len(msc), 60000):
                part = msc[i:i + 60000]
                bym, nm = seqeng.run_and_judge(part, "mech", monitors=[("StoreTrace", None)], keep=True)
                minem, otherm = attribute(spec, part, bym)
                report_bad(rep, part, minem)
                mconsts = {k: v for k, v in dict(consts, MaxCalls=100000).items() if k not in ("CommitOrder", "Faults")}   # fixed in StoreMTrace.cfg
                drift, nl, _ = vlib.validate_traces("StoreMTrace", "StoreMTrace.cfg", seqeng.KEPT_FILES, consts=mconsts)
                for f in seqeng.KEPT_FILES:
                    os.unlink(f)
                drift_total += len({(b["file"], b["t"]) for b in drift})
                rep.cov["evaluations"] += nm
            checked_total += len(msc)
            total += len(msc)
        # long walks (C04; C02 with four times the reopens): KV.tla -simulate histories over the model's three keys with both collectors, time limits for both,
        # thresholds 0 / 85 / 101 and reopen through snapshot, rescan and a truncated snapshot, executed on the real store
        # (verdict: StoreTrace) and replayed through the mechanism model by StoreMTrace - the model is deterministic given
        # the flush order, so it follows any recorded history, not only those of its own state graph
        if pid in ("C04", "C02"):
            w = ["put"] * 6 + ["rem"] * 2 + ["flush"] * 4 + ["idxgc"] * 3 + ["prigc"] * 2 + ["reopen"] * (1 if pid == "C04" else 4)
            nw, dw = (3000, 80) if thorough else ((150, 50) if pid == "C04" else (60, 40))
            kc = seqeng.kv_consts(3, w, dw, deadlines=(0, 0, 1, 2, 3, 5), lowuses=(0, 85, 101))
            hsw, rw = seqeng.gen_histories(kc, "sim", num=nw, seed=vlib.seed() + 57)
            rep.cov["transitions"] += rw.states
            walked = 0
            for wi, (pl, il) in enumerate([(33, 30), (70, 70), (200, 120)] if thorough else [(33, 30), (70, 70)]):
                wcfg = dict(primary="mh", bits=8, il=il, pl=pl, imm=False, keys=mkeys, vals=seqeng.VALS, proj=True, probe="end", cmp=(pid == "C02"))
                part = [{"cfg": wcfg, "ops": fix_ops(wcfg, h)} for h in hsw[wi::(3 if thorough else 2)]]
                byw, nwl = seqeng.run_and_judge(part, "walk", monitors=[("StoreTrace", None)], keep=True)
                minew, _ = attribute(spec, part, byw)
                report_bad(rep, part, minew)
                wconsts = {"Vals": "{0, 5}", "PriLimit": pl, "IdxLimit": il, "MaxCalls": 100000, "WithGC": "TRUE", "LowUses": "{0, 101}", "Deadlines": "{0}", "IDeadlines": "{0}"}
                drift, _, _ = vlib.validate_traces("StoreMTrace", "StoreMTrace.cfg", seqeng.KEPT_FILES, consts=wconsts, timeout=3000)
                for f in seqeng.KEPT_FILES:
                    os.unlink(f)
                drift_total += len({(b["file"], b["t"]) for b in drift})
                rep.cov["evaluations"] += nwl
                walked += len(part)
            checked_total += walked
            total += walked
            rep.cov["mechanism_model_long_walks_replayed"] = walked
            vlib.log("%s: %d long walks replayed through the mechanism model" % (pid, walked))
        rep.cov["mechanism_model_histories_replayed"] = checked_total
        rep.cov["mechanism_model_histories_whose_files_differ_from_the_model"] = drift_total
    # 1. exhaustive short histories
    blen = 5 if thorough else 4
    consts = seqeng.kv_consts(spec["bfs_nk"], spec["bfs_weights"], blen, nv=spec["bfs_nv"], deadlines=(0, 2) if pid == "C04" else (0,),
                              lowuses=(0, 101) if pid == "C04" else (0,), bitsset=(9, 16) if pid == "C09" else (8,))
    hs, r = seqeng.gen_histories(consts, "bfs", timeout=1500)
    rep.add_model(r)
    hs = [h for h in hs if any(o["op"] in spec["own_ops"] for o in h)]
    cfgs = [dict(primary="mh", bits=8, il=30, pl=30, imm=False, keys=BASE_KEYS[:2], vals=["empty", "b5"], cmp=True, probe="all"),
            # (second configuration: one key in the LAST bucket of the table)
            dict(primary="mh", bits=8, il=70, pl=70, imm=False, keys=[BASE_KEYS[0], [255, 255, 255, 0, 9, 0, 3, 3]], vals=["a1", "c40"], cmp=True, probe="end")]
    if thorough:
        cfgs.append(dict(primary="cid", bits=8, il=30, pl=30, imm=False, keys=BASE_KEYS[:2], vals=["nil", "b5"], cmp=True, probe="all"))
    scens = [{"cfg": c, "ops": fix_ops(c, h)} for c in cfgs for h in hs]
    vlib.log("%s: %d exhaustive histories of length %d x %d configurations" % (pid, len(hs), blen, len(cfgs)))
    by, n = seqeng.run_and_judge(scens, "bfs")
    vlib.log("%s: exhaustive histories judged" % pid)
    mine, other = attribute(spec, scens, by)
    report_bad(rep, scens, mine)
    unattributed += len(other)
    rep.cov["evaluations"] += n
    total += len(scens)
    rep.cov["samples"] = [scens[len(scens) // 2]["ops"]]
    # 2. TLC -simulate walks under a configuration sweep
    nsim, depth = (20000, 80) if thorough else (1200, 50)
    if pid == "C09" and thorough:
        nsim, depth = 6000, 60
    consts = seqeng.kv_consts(6, spec["weights"], depth, deadlines=spec["deadlines"], lowuses=spec["lowuses"], bitsset=bitsset)
    hs2, r2 = seqeng.gen_histories(consts, "sim", num=nsim, seed=vlib.seed())
    rep.cov["transitions"] += r2.states
    cfgl = seqeng.sweep(rng, 64, primaries=spec["primaries"], limits=spec["limits"], imm=(False, False, False, True))
    for c in cfgl:
        c["cmp"] = True
        c["probe"] = rng.choice(["all", "end"])
    sc2 = [{"cfg": cfgl[i % len(cfgl)], "ops": fix_ops(cfgl[i % len(cfgl)], h)} for i, h in enumerate(hs2)]
    by2, n2 = seqeng.run_and_judge(sc2, "sim")
    vlib.log("%s: %d walks judged" % (pid, len(sc2)))
    mine2, other2 = attribute(spec, sc2, by2)
    report_bad(rep, sc2, mine2)
    unattributed += len(other2)
    rep.cov["evaluations"] += n2
    total += len(sc2)
    rep.cov["samples"].append(sc2[0]["ops"][:14])
    # 2b. (C04) index-GC-heavy walks on multi-record index files: records of one file die in different cycles, so the
    #     collector marks, merges already-deleted spans into newly freed ones, truncates and unlinks piecemeal
    if pid == "C04":
        consts = seqeng.kv_consts(6, ["put"] * 6 + ["rem"] + ["flush"] * 5 + ["idxgc"] * 5 + ["reopen", "prigc"], depth + 20, deadlines=(0, 0, 0, 3), lowuses=(85, 101))
        hs3, r3 = seqeng.gen_histories(consts, "sim", num=nsim // 2, seed=vlib.seed() + 101)
        rep.cov["transitions"] += r3.states
        cfg3 = seqeng.sweep(rng, 32, primaries=("mh", "cid"), limits=(70, 120, 200), imm=(False,))
        for c in cfg3:
            c["cmp"], c["probe"] = True, "end"
        sc3 = [{"cfg": cfg3[i % len(cfg3)], "ops": fix_ops(cfg3[i % len(cfg3)], h)} for i, h in enumerate(hs3)]
        by3, n3 = seqeng.run_and_judge(sc3, "sim3")
        mine3, other3 = attribute(spec, sc3, by3)
        report_bad(rep, sc3, mine3)
        unattributed += len(other3)
        rep.cov["evaluations"] += n3
        total += len(sc3)
    # 2c. (C09, thorough) the large bit sizes: short walks between 8, 16, 21..24
    if pid == "C09" and thorough:
        consts = seqeng.kv_consts(6, ["put"] * 4 + ["rem", "flush", "rebits", "rebits", "get"], 14, bitsset=(8, 16, 21, 22, 23, 24))
        hs4, r4 = seqeng.gen_histories(consts, "sim", num=160, seed=vlib.seed() + 7)
        cfg4 = seqeng.sweep(rng, 8, primaries=("mh", "cid"), limits=(70, 1 << 30), imm=(False,))
        for c in cfg4:
            c["cmp"], c["probe"] = False, "end"
        sc4 = [{"cfg": cfg4[i % len(cfg4)], "ops": fix_ops(cfg4[i % len(cfg4)], h)} for i, h in enumerate(hs4)]
        by4, n4 = seqeng.run_and_judge(sc4, "bigbits", timeout=3000)
        mine4, other4 = attribute(spec, sc4, by4)
        report_bad(rep, sc4, mine4)
        unattributed += len(other4)
        rep.cov["evaluations"] += n4
        rep.cov["histories_with_bit_sizes_21_to_24"] = len(sc4)
        total += len(sc4)
    # 3. witnesses of repaired defects (must pass)
    ws = witnesses(pid)
    if ws:
        by3, _ = seqeng.run_and_judge(ws, "wit")
        report_bad(rep, ws, by3)
        total += len(ws)
    rep.cov["traces_validated_against_impl"] = total
    if pid == "C09":
        import c03
        c03.crash_clause_c09(rep, rng, thorough)
    rep.cov["exhaustive"] = True
    rep.cov["distinct_nontrivial"] = len({json.dumps(s["ops"]) for s in scens}) + len({json.dumps(s["ops"]) for s in sc2})
    rep.cov["failures_not_attributed_to_this_property"] = unattributed
    rep.cov["rule"] = ("all histories of length %d over %s (2 keys sharing a bucket and 7 prefix bytes, 2 values) containing at least one of this property's operations, under %d configurations, "
                       "plus TLC -simulate walks of KV.tla of depth %d under 64 seeded configurations: %s; every key probed with Get/Has/GetSize after every call; "
                       "non-trivial = contains at least one of the property's own operations after a write"
                       % (blen, "/".join(spec["bfs_weights"]), len(cfgs), depth, spec["what"]))
    rep.assumptions = ["TLC + Json module", "GC return values (time limit, benign errors) are logged, not judged", "keys/values as in C01"]
    return rep.finish()


def replay(pid, path):
    rep = vlib.Report(pid, replay=True)
    with open(path) as f:
        obj = json.load(f)
    vlib.build_harness()
    by, n = seqeng.run_and_judge([obj["scenario"]], "replay")
    report_bad(rep, [obj["scenario"]], by)
    print("replay: %d offending lines" % sum(len(v) for v in by.values()))
    return rep.finish()
