"""C05 - concurrent calls are linearizable.  StoreConc.tla is model-checked (Linearizable,
NoError); one schedule per transition of its state graph is replayed on a real store by the
cooperative scheduler; LinTrace.tla (TLC as linearizability checker) judges the real history."""
import json, os, random
import vlib, conceng

KF_ID = "KF-C05-update-vs-remove"


def kf_matches(sc, rules):
    """known finding: two concurrent writers of one key - Put-update overlapping Remove (error 'key to update
    not found'), or, in immutable mode, two Puts of the same absent key (both acknowledged)"""
    ops = list(sc["prog"].values())
    init = set(sc.get("init", []))
    a = any(x["op"] == "put" and y["op"] == "rem" and x["k"] == y["k"] and x["k"] in init for x in ops for y in ops)
    b = sc.get("imm") and any(x is not y and x["op"] == "put" and y["op"] == "put" and x["k"] == y["k"] and x["k"] not in init for x in ops for y in ops)
    return (a or b) and set(rules) <= {"call-failed", "not-linearizable", "contents-changed-by-flush-and-reopen"}


def witnesses(pid, kind):
    out = []
    for w in vlib.known_findings().get(kind, []):
        if w.get("property") == pid and w.get("witness"):
            with open(os.path.join(vlib.VERIF, w["witness"])) as f:
                out.append((w, json.load(f)["scenario"]))
    return out


def run(pid):
    rep = vlib.Report(pid)
    rng = random.Random(vlib.seed())
    vlib.build_harness()
    thorough = vlib.tier() == "thorough"
    stops = conceng.CLIENT_STOPS + conceng.FLUSH_STOPS
    total = 0
    inits = [("{}", []), ('{"A"}', ["A"]), ('{"A", "B"}', ["A", "B"])]
    for imm in (False, True):
        for tla_init, init in inits:
            consts = {"Threads": '{"t1", "t2"}', "InitPresent": tla_init, "Immutable": "TRUE" if imm else "FALSE",
                      "WithFlusher": "TRUE", "AllowUpdateVsRemove": "FALSE"}
            r = vlib.tlc_must("MCStoreConc", "MCStoreConc_mc.cfg", consts=consts, timeout=1500)
            if r.violated:
                raise vlib.Infra("StoreConc.tla violates Linearizable/NoError outside the known finding; replay the counter-example first:\n" + r.out[-2500:])
            rep.add_model(r)
            scens, g, nexp = vlib.gen_scenarios("MCStoreConc", "MCStoreConc", consts, edges=True, key=lambda s: s["schedule"])
            full = len(scens)
            cap = None if thorough else 1100
            if cap and len(scens) > cap:
                scens = rng.sample(scens, cap)
            for s in scens:
                s["stops"] = stops
                s["init"] = init
                s["imm"] = imm
                s["il"] = s["pl"] = rng.choice([1 << 30, 64])
            vlib.log("C05 init=%s imm=%s: %d model states, %d transitions, %d maximal schedules, %d replayed" % (init, imm, g.distinct, nexp, full, len(scens)))
            by = conceng.judge(rep, scens, "e%d" % total)
            total += len(scens)
            if len(rep.cov["samples"]) < 3:
                rep.cov["samples"].append({"prog": scens[0]["prog"], "schedule": scens[0]["schedule"]})
            for t, rules in by.items():
                rep.violation("rules %s" % ",".join(rules), {"engine": "conc", "scenario": scens[t], "rules": rules})
    # overlapping flushes: one commit parked at each of its yield points, a write to another bucket or to the same
    # key, then a second commit run to completion (it blocks where the flush locks serialise it), then the rest
    pr = []
    for i in range(1, len(conceng.FLUSH_STOPS) + 1):
        for op in ({"op": "put", "k": "C", "v": 1}, {"op": "put", "k": "A", "v": 4}, {"op": "rem", "k": "B", "v": 0}, {"op": "get", "k": "A", "v": 0}):
            for dirty in ([{"op": "put", "k": "A", "v": 3}], [{"op": "put", "k": "B", "v": 2}, {"op": "put", "k": "C", "v": 2}]):
                for order in (["c", "f2"], ["f2", "c"]):
                    sched = ["f"] * i + [order[0]] * 12 + [order[1]] * 12 + ["f"] * 12 + ["f2"] * 12 + ["c"] * 12
                    pr.append({"prog": {"c": op}, "init": ["A", "B"], "imm": False, "schedule": sched, "stops": stops,
                               "il": rng.choice([1 << 30, 64]), "pl": 1 << 30, "setup": dirty})
    by = conceng.judge(rep, pr, "ovl")
    total += len(pr)
    rep.cov["overlapping_flush_probes"] = len(pr)
    for t, rules in by.items():
        rep.violation("rules %s" % ",".join(rules), {"engine": "conc", "scenario": pr[t], "rules": rules})
    # lock probes between foreground calls: t1 parked after its i-th yield point (the stop set includes the primary reads,
    # one of which lies INSIDE Index.Put under the bucket lock), t2 run to completion, then the rest. On the unchanged code
    # t2 blocks wherever the bucket lock protects t1's section; if the lock is narrowed the interleaving happens.
    evict = [{"op": "put", "k": "C", "v": 1}, {"op": "flush"}, {"op": "rem", "k": "C"}, {"op": "flush"}]
    menu = [{"op": "put", "k": k, "v": v} for k in ("A", "B") for v in (1, 2)] + [{"op": o, "k": k, "v": 0} for o in ("get", "rem") for k in ("A", "B")]
    lp = []
    pstops = conceng.CLIENT_STOPS + ["priget.before", "pri.get.afterCached"]
    for init in ([], ["A"], ["A", "B"]):
        for o1 in menu:
            for o2 in menu:
                if o1["k"] == o2["k"] and o1["op"] != "get" and o2["op"] != "get" and not (o1["op"] == "put" and o2["op"] == "put"):
                    continue      # same-key writer pairs other than put/put: known finding KF-C05-same-key-writers-a
                for i in range(1, 8):
                    lp.append({"prog": {"t1": o1, "t2": o2}, "init": init, "imm": False, "schedule": ["t1"] * i + ["t2"] * 12 + ["t1"] * 12 + ["t2"] * 12,
                               "stops": pstops, "setup": evict, "il": 1 << 30, "pl": 1 << 30})
    if not thorough:
        lp = rng.sample(lp, 500)
    by = conceng.judge(rep, lp, "lp")
    total += len(lp)
    rep.cov["foreground_lock_probes"] = len(lp)
    for t, rules in by.items():
        rep.violation("rules %s" % ",".join(rules), {"engine": "conc", "scenario": lp[t], "rules": rules})
    # free-running histories: started flusher (1 ms), 2 extra Flush callers, 4 single-writer writers and 4 readers over keys
    # that share buckets and prefixes; RegTrace.tla checks the atomic-register conditions per key and the final contents
    rounds = 24 if thorough else 8
    st = [dict(buckets=[4, 16][i % 2], writers=4, readers=4, keys=[32, 64][i % 2], writes=1500, reads=2000, flushers=2, idxgc=False, prigc=False, gate=False,
               lowUse=101, pl=[4096, 1 << 30][i % 2], il=[2048, 1 << 30][(i // 2) % 2], owngc=False, seed=vlib.seed() * 100 + i) for i in range(rounds)]
    # ... and the same under the CID primary (its own write pool and flush)
    st += [dict(x, cid=True, buckets=8, pl=1 << 30, seed=x["seed"] + 50) for x in st[: (8 if thorough else 3)]]
    # all scenarios of one harness run share the bucket count and the primary type: three runs
    for nb in (4, 16, 8):
        part = [x for x in st if x["buckets"] == nb]
        d = vlib.subdir("c05.stress%d" % nb)
        sf = os.path.join(d, "scen.ndjson")
        vlib.write_ndjson(sf, part)
        files, summ = vlib.run_harness("stress", sf, os.path.join(d, "trace"), workers=min(4, vlib.WORKERS), timeout=3000)
        bad, nlines, _ = vlib.validate_traces("RegTrace", "RegTrace.cfg", files)
        rep.cov["evaluations"] += nlines
        rep.cov["traces_validated_against_impl"] += len(part)
        rep.cov["free_running_events"] = rep.cov.get("free_running_events", 0) + nlines
        seen = {}
        for b in bad:
            seen.setdefault(b["t"], set()).add(b["rule"])
        for c in summ.get("crashed", []):
            seen.setdefault(c["t"], set()).add("process-crash-or-hang")
        for t, rules in seen.items():
            rep.violation("free-running history: %s" % ",".join(sorted(rules)), {"engine": "stress", "scenario": part[t], "rules": sorted(rules)})
        total += len(part)
    # known finding: pinned witness, executed separately
    for w, sc in witnesses(pid, "findings"):
        by = conceng.judge(rep, [sc], "kf")
        if by and kf_matches(sc, by[0]):
            rep.known.append("%s: %s (witness %s still fails with rules %s)" % (w["id"], w["title"], w["witness"], ",".join(by[0])))
        elif by:
            rep.violation("pinned witness of %s fails with an unlisted symptom %s" % (w["id"], by[0]), {"engine": "conc", "scenario": sc, "rules": by[0]})
        else:
            vlib.log("known finding %s no longer reproduces on its witness" % w["id"])
    for w, sc in witnesses(pid, "fixed"):
        by = conceng.judge(rep, [sc], "fx")
        for t, rules in by.items():
            rep.violation("witness of a repaired defect fails again: %s" % ",".join(rules), {"engine": "conc", "scenario": sc, "rules": rules})
    rep.cov["exhaustive"] = thorough
    rep.cov["distinct_nontrivial"] = total
    rep.cov["rule"] = ("one schedule per reachable TRANSITION of StoreConc.tla: programs = every assignment of one call (Put/Get/Remove over keys A,B that share bucket and stored prefix byte, 2 values) to 2 threads "
                       "x initial contents {},{A},{A,B} x immutable on/off, interleaved with the 6 steps of one commit; the quick tier replays a seeded sample of 1100 schedules per configuration, the thorough tier all; "
                       "programs that fire the known finding (Put-update overlapping Remove of the same key) are guarded out of the bulk and run as a pinned witness")
    rep.assumptions = ["TLC + Json module", "yield points sit between the critical sections named in StoreConc.tla; a race strictly inside one is not reachable by schedule replay",
                       "histories of <= 3 calls, so TLC can enumerate all linearizations"]
    return rep.finish()


def replay(pid, path):
    rep = vlib.Report(pid, replay=True)
    with open(path) as f:
        obj = json.load(f)
    vlib.build_harness()
    by = conceng.judge(rep, [obj["scenario"]], "replay")
    for t, rules in by.items():
        rep.violation("rules %s" % ",".join(rules), {"engine": "conc", "scenario": obj["scenario"], "rules": rules})
    print("replay: rules %s" % (by.get(0) or []))
    return rep.finish()
