"""C14 - file cache handle safety.  FileCache.tla (transcription of filecache.go) is
model-checked, every reachable model state is reached on a real FileCache over real
files, and FileCacheTrace.tla judges the real observations."""
import json, os, random
import vlib


def bounds():
    """measured: 2 names, caps 0..2, <=5 handles, <=8 calls: 228 k transitions; 3 names, caps 0..2, <=6 calls: 89 k"""
    if vlib.tier() == "thorough":
        return [dict(Caps="{0,1,2}", MaxHandles=5, MaxOps=8, Fixed="TRUE", names='{"a", "b"}'),
                dict(Caps="{0,1,2}", MaxHandles=4, MaxOps=6, Fixed="TRUE", names='{"a", "b", "c"}')]
    return [dict(Caps="{0,1,2}", MaxHandles=4, MaxOps=6, Fixed="TRUE", names='{"a", "b"}')]


def random_scenarios(rng, n, depth):
    out = []
    for _ in range(n):
        names = ["a", "b", "c", "d"][: rng.choice([2, 3, 4])]
        cap = rng.choice([0, 1, 2, 3])
        ops = [{"op": "new", "c": cap}]
        for _ in range(depth):
            r = rng.random()
            if r < 0.4:
                ops.append({"op": "open", "n": rng.choice(names)})
            elif r < 0.7:
                # handle ids are only known at run time: close the sel-th handle currently held
                ops.append({"op": "closesel", "c": rng.randrange(1000)})
            elif r < 0.8:
                ops.append({"op": "remove", "n": rng.choice(names)})
            elif r < 0.87:
                ops.append({"op": "clear"})
            else:
                ops.append({"op": "setsize", "c": rng.choice([0, 1, 2, 3])})
        out.append({"ops": ops, "open": [], "panicked": False})
    return out


def judge(rep, scens, label):
    d = vlib.subdir("c14." + label)
    sf = os.path.join(d, "scen.ndjson")
    vlib.write_ndjson(sf, scens)
    files, summ = vlib.run_harness("fcache", sf, os.path.join(d, "trace"))
    bad, nlines, _ = vlib.validate_traces("FileCacheTrace", "FileCacheTrace.cfg", files)
    rep.cov["traces_validated_against_impl"] += len(scens)
    rep.cov["evaluations"] += nlines
    for k in ("model_open_equal", "model_open_differs"):
        rep.cov[k] = rep.cov.get(k, 0) + summ.get(k, 0)
    for c in summ.get("crashed", []):
        rep.violation("the harness process dies or hangs while executing this scenario alone", {"engine": "fcache", "scenario": scens[c["t"]], "rules": ["process-crash-or-hang"], "why": c["why"]})
    seen = set()
    for b in bad:
        if b["t"] in seen:
            continue
        seen.add(b["t"])
        rules = sorted({x["rule"] for x in bad if x["t"] == b["t"]})
        rep.violation("rules %s at step %d" % (",".join(rules), b["i"]), {"engine": "fcache", "scenario": scens[b["t"]], "rules": rules, "step": b["i"]})
    return bad


def run(pid):
    rep = vlib.Report(pid)
    rng = random.Random(vlib.seed())
    vlib.build_harness()
    total = 0
    for b in bounds():
        consts = {k: b[k] for k in ("Caps", "MaxHandles", "MaxOps", "Fixed")}
        consts["Names"] = b["names"]
        r = vlib.tlc_must("MCFileCache", "MCFileCache_mc.cfg", consts=consts, timeout=1500)
        if r.violated:
            raise vlib.Infra("FileCache.tla violates its invariants; the model counter-example must be replayed on the code first:\n" + r.out[-2500:])
        rep.add_model(r)
        scens, g, nexp = vlib.gen_scenarios("MCFileCache", "MCFileCache", consts, edges=True)
        vlib.log("C14 %s: %d model states, %d transitions, %d maximal histories" % (consts, g.distinct, nexp, len(scens)))
        total += len(scens)
        if not rep.cov["samples"]:
            rep.cov["samples"] = [s["ops"] for s in scens[:: max(1, len(scens) // 3)][:3]]
        for i in range(0, len(scens), 60000):
            judge(rep, scens[i:i + 60000], "bfs%d.%d" % (total, i))
    n, depth = (400, 30) if vlib.tier() == "quick" else (5000, 60)
    rs = random_scenarios(rng, n, depth)
    judge(rep, rs, "rand")
    # pinned witnesses of repaired defects (must pass; they suppress nothing)
    wit = [w for w in vlib.known_findings().get("fixed", []) if w.get("property") == pid and w.get("witness")]
    ws = []
    for w in wit:
        with open(os.path.join(vlib.VERIF, w["witness"])) as f:
            ws.append(json.load(f)["scenario"])
    if ws:
        judge(rep, ws, "witness")
    rep.cov["exhaustive"] = True
    rep.cov["distinct_nontrivial"] = total + n
    rep.cov["rule"] = ("one history per reachable TRANSITION of FileCache.tla (BFS shortest history to the source state + the step; maximal histories only) replayed on a real FileCache over real files, plus seeded random "
                       "histories over up to 4 names and capacities 0..3; distinct by op sequence; non-trivial = at least one Open")
    rep.assumptions = ["TLC + Json module", "Stat() failing with ErrClosed is how a closed handle is observed", "/proc/self/fd is accurate"]
    return rep.finish()


def replay(pid, path):
    rep = vlib.Report(pid, replay=True)
    with open(path) as f:
        obj = json.load(f)
    vlib.build_harness()
    bad = judge(rep, [obj["scenario"]], "replay")
    print("replay: %d offending lines" % len(bad))
    return rep.finish()
