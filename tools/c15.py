"""C15 - blockstore contract.  Blockstore.tla is model-checked, every reachable
transition is executed on a real HashedBlockstore and BlockstoreTrace.tla judges the
recorded outcomes and post-call probes."""
import json, os, random
import vlib


def bounds():
    b = [dict(Fns='{"sha2-256"}', Datas='{"d0", "d1", "d2"}', MaxOps=8),
         # identity-hashed blocks whose digests share bucket and stored prefix: an absent CID reaches another block's entry
         dict(Fns='{"identity"}', Datas='{"d4", "d5"}', MaxOps=8),
         # a truncated digest (sha2-256 cut to 20 bytes): hash-on-read must compare at the length the CID records
         dict(Fns='{"sha2-256/20"}', Datas='{"d1", "d3"}', MaxOps=8)]
    if vlib.tier() == "thorough":
        b.append(dict(Fns='{"sha2-256", "blake2b-256"}', Datas='{"d0", "d1"}', MaxOps=8))
        b.append(dict(Fns='{"sha2-512"}', Datas='{"d0", "d2", "d3"}', MaxOps=8))
    return b


def rand_cid(rng, fns, datas):
    fn = rng.choice(fns)
    v, codec = rng.choice([(1, "raw"), (1, "dag-pb"), (1, "dag-cbor")] + ([(0, "dag-pb")] if fn == "sha2-256" else []))
    return {"v": v, "codec": codec, "fn": fn, "d": rng.choice(datas)}


def random_scenarios(rng, n, depth):
    out = []
    for _ in range(n):
        fns = rng.sample(["sha2-256", "sha2-512", "blake2b-256", "sha3-256", "sha2-256/20", "sha2-512/32"], rng.choice([1, 2, 3]))
        # (a function together with its own truncation gives digests of which one is a PREFIX of the other for the same block;
        #  the index is specified for prefix-free keys only - C08: "distinct equal-length keys" - so the two never meet here)
        if "sha2-256" in fns and "sha2-256/20" in fns:
            fns.remove("sha2-256")
        if "sha2-512" in fns and "sha2-512/32" in fns:
            fns.remove("sha2-512")
        datas = rng.sample(["d0", "d1", "d2", "d3"], rng.choice([2, 3, 4]))
        if rng.random() < 0.4:      # prefix-sharing identity digests
            # (only with blocks of >= 9 bytes: the store refuses digests shorter than 4 bytes by contract, ErrKeyTooShort)
            fns = ["identity"] + fns[:1]
            datas = ["d4", "d5", "d6"]
        ops = []
        for _ in range(depth):
            r = rng.random(); x = rng.random() < 0.15
            c = rand_cid(rng, fns, datas)
            if r < 0.25:
                ops.append({"op": "put", "c": c, "d": c["d"] if rng.random() < 0.7 else rng.choice(datas), "x": x})
            elif r < 0.33:
                c2 = rand_cid(rng, fns, datas)
                ops.append({"op": "putmany", "c": c, "d": c["d"], "c2": c2, "d2": c2["d"] if rng.random() < 0.7 else rng.choice(datas), "x": x})
            elif r < 0.55:
                ops.append({"op": "get", "c": c, "x": x})
            elif r < 0.65:
                ops.append({"op": "has", "c": c, "x": x})
            elif r < 0.75:
                ops.append({"op": "size", "c": c, "x": x})
            elif r < 0.9:
                ops.append({"op": "delete", "c": c, "x": x})
            else:
                ops.append({"op": "hashonread", "b": rng.random() < 0.5})
        out.append({"ops": ops})
    return out


def judge(rep, scens, label):
    d = vlib.subdir("c15." + label)
    sf = os.path.join(d, "scen.ndjson")
    vlib.write_ndjson(sf, scens)
    files, summ = vlib.run_harness("bstore", sf, os.path.join(d, "trace"))
    bad, nlines, _ = vlib.validate_traces("BlockstoreTrace", "BlockstoreTrace.cfg", files)
    rep.cov["traces_validated_against_impl"] += len(scens)
    rep.cov["evaluations"] += nlines
    for c in summ.get("crashed", []):
        rep.violation("the harness process dies or hangs while executing this scenario alone", {"engine": "bstore", "scenario": scens[c["t"]], "rules": ["process-crash-or-hang"], "why": c["why"]})
    seen = set()
    for b in bad:
        if b["t"] in seen:
            continue
        seen.add(b["t"])
        rules = sorted({x["rule"] for x in bad if x["t"] == b["t"]})
        rep.violation("rules %s at step %d" % (",".join(rules), b["i"]), {"engine": "bstore", "scenario": scens[b["t"]], "rules": rules, "step": b["i"]})
    return bad


def witnesses(pid):
    ws = []
    for w in vlib.known_findings().get("fixed", []):
        if w.get("property") == pid and w.get("witness"):
            with open(os.path.join(vlib.VERIF, w["witness"])) as f:
                ws.append(json.load(f)["scenario"])
    return ws


def run(pid):
    rep = vlib.Report(pid)
    rng = random.Random(vlib.seed())
    vlib.build_harness()
    total = 0
    for b in bounds():
        r = vlib.tlc_must("MCBlockstore", "MCBlockstore_mc.cfg", consts=b, timeout=1500)
        if r.violated:
            raise vlib.Infra("Blockstore.tla violates its own invariants:\n" + r.out[-2500:])
        rep.add_model(r)
        scens, g, nexp = vlib.gen_scenarios("MCBlockstore", "MCBlockstore", b, edges=True)
        vlib.log("C15 %s: %d model states, %d transitions, %d maximal histories" % (b, g.distinct, nexp, len(scens)))
        total += len(scens)
        if not rep.cov["samples"]:
            rep.cov["samples"] = [s["ops"] for s in scens[:: max(1, len(scens) // 3)][:3]]
        judge(rep, scens, "edges%d" % total)
    n, depth = (300, 40) if vlib.tier() == "quick" else (4000, 80)
    judge(rep, random_scenarios(rng, n, depth), "rand")
    ws = witnesses(pid)
    if ws:
        judge(rep, ws, "witness")
    rep.cov["exhaustive"] = True
    rep.cov["distinct_nontrivial"] = total + n
    rep.cov["rule"] = ("one history per reachable TRANSITION of Blockstore.tla (all CIDs v0/v1 x raw/dag-pb over the configured hash functions, matching and "
                       "mismatching bytes, live and cancelled contexts, Put/PutMany/Get/Has/GetSize/DeleteBlock/HashOnRead) replayed on a real HashedBlockstore, "
                       "plus seeded random histories over 7 hash functions (incl. identity digests that share bucket and stored prefix, and digests truncated to 20 / 32 bytes), 3 codecs and 7 block sizes (0 B .. 1 KiB); distinct by op sequence")
    rep.assumptions = ["TLC + Json module", "block sizes are pairwise distinct so GetSize identifies the stored bytes",
                       "no two multihashes in one history have digests of which one is a prefix of the other (a hash function and its own truncation over the same block): the index is specified for prefix-free keys (C08); observed outside that precondition: the Put of the shorter one returns nil and stores nothing"]
    return rep.finish()


def replay(pid, path):
    rep = vlib.Report(pid, replay=True)
    with open(path) as f:
        obj = json.load(f)
    vlib.build_harness()
    bad = judge(rep, [obj["scenario"]], "replay")
    print("replay: %d offending lines" % len(bad))
    return rep.finish()
