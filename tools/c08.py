"""C08 - prefix-compressed record lists.  RecordList.tla is model-checked, every
reachable model state is reached on a real index.Index by its BFS history, and the
real record list / real Index.Get results are judged by RecordListTrace.tla."""
import itertools, json, os, random
import vlib


def configs():
    """(constants, edges?)  edge coverage where the transition count allows it, state coverage beyond
    (measured: binary L=3 <=4 keys 235 k transitions; <=8 keys 833 k transitions / 63 k states;
    ternary L=3 <=2 keys 63 k transitions; binary L=4 <=3 keys 1.1 M transitions / 153 k states)"""
    if vlib.tier() == "thorough":
        return [(dict(Alphabet="{0,1}", KeyLen=3, MaxPresent=4, alpha=[0, 1], L=3), True),
                (dict(Alphabet="{0,1}", KeyLen=3, MaxPresent=8, alpha=[0, 1], L=3), False),
                (dict(Alphabet="{0,1,2}", KeyLen=3, MaxPresent=2, alpha=[0, 1, 2], L=3), True),
                (dict(Alphabet="{0,1}", KeyLen=4, MaxPresent=2, alpha=[0, 1], L=4), True),
                (dict(Alphabet="{0,1}", KeyLen=4, MaxPresent=3, alpha=[0, 1], L=4), False)]
    return [(dict(Alphabet="{0,1}", KeyLen=3, MaxPresent=3, alpha=[0, 1], L=3), True)]


def random_scenarios(rng, n, depth):
    """Longer random histories over larger alphabets (adversarial shared prefixes)."""
    out = []
    for _ in range(n):
        L = rng.choice([3, 4, 6, 10])
        bits = rng.choice([8, 8, 12, 12, 16, 20])
        alpha = rng.sample(range(256 if bits % 8 == 0 else 16), rng.choice([2, 3, 4, 8]))
        nk = min(rng.choice([4, 6, 10]), len(alpha) ** L)
        keys = set()
        while len(keys) < nk:
            base = [rng.choice(alpha) for _ in range(L)]
            if keys and rng.random() < 0.7:   # share a long prefix with an existing key
                o = list(rng.choice(sorted(keys)))
                cut = rng.randrange(1, L)
                base = o[:cut] + base[cut:]
            keys.add(tuple(base))
        keys = [list(k) for k in sorted(keys)]
        present, ops = set(), []
        for _ in range(depth):
            k = rng.choice(keys); kt = tuple(k)
            r = rng.random()
            if r < 0.12:
                ops.append({"op": "flush"})
            elif kt not in present:
                ops.append({"op": "put", "k": k}); present.add(kt)
            elif r < 0.6:
                ops.append({"op": "upd", "k": k})
            else:
                ops.append({"op": "rem", "k": k}); present.discard(kt)
        nfl = sum(1 for o in ops if o["op"] == "flush")
        # exact fill (half of the histories): the index file-size limit is set to the exact length the file has after the
        # j-th flush, so the next flush finds the file exactly full - the roll-over rule decides by where a record STARTS
        fill = rng.randrange(1, nfl) if nfl >= 2 and rng.random() < 0.5 else 0
        out.append({"ops": ops, "keys": keys, "rl": [], "bits": bits, "fill": fill})
    return out


def judge(rep, pid, scens, label):
    d = vlib.subdir("c08." + label)
    sf = os.path.join(d, "scen.ndjson")
    vlib.write_ndjson(sf, scens)
    files, summ = vlib.run_harness("reclist", sf, os.path.join(d, "trace"))
    bad, nlines, _ = vlib.validate_traces("RecordListTrace", "RecordListTrace.cfg", files)
    rep.cov["traces_validated_against_impl"] += len(scens)
    rep.cov["evaluations"] += nlines
    rep.cov.setdefault("model_list_equal", 0); rep.cov.setdefault("model_list_differs", 0)
    rep.cov["model_list_equal"] += summ.get("model_list_equal", 0)
    rep.cov["model_list_differs"] += summ.get("model_list_differs", 0)
    for c in summ.get("crashed", []):
        rep.violation("the harness process dies or hangs while executing this scenario alone", {"engine": "reclist", "scenario": scens[c["t"]], "rules": ["process-crash-or-hang"], "why": c["why"]})
    seen = set()
    for b in bad:
        if b["t"] in seen:
            continue
        seen.add(b["t"])
        sc = scens[b["t"]]
        rules = sorted({x["rule"] for x in bad if x["t"] == b["t"]})
        rep.violation("rules %s at step %d" % (",".join(rules), b["i"]), {"engine": "reclist", "scenario": sc, "rules": rules, "step": b["i"]})
    return bad


def run(pid):
    rep = vlib.Report(pid)
    rng = random.Random(vlib.seed())
    vlib.build_harness()
    exhaustive = True
    total_scn = 0
    for c, edges in configs():
        consts = {k: c[k] for k in ("Alphabet", "KeyLen", "MaxPresent")}
        # 1. the model satisfies the property (design level)
        r = vlib.tlc_must("MCRecordList", "MCRecordList_mc.cfg", consts=consts, timeout=1500)
        if r.violated:
            raise vlib.Infra("RecordList.tla violates its own invariants - model counter-example must be replayed first:\n" + r.out[-2500:])
        rep.add_model(r)
        # 2. one scenario per reachable transition (shortest history + the step), replayed on the real index
        scens, g, nexp = vlib.gen_scenarios("MCRecordList", "MCRecordList", consts, edges=edges, timeout=3000)
        keys = [list(k) for k in itertools.product(c["alpha"], repeat=c["L"])]
        for s in scens:
            s["keys"] = keys
        vlib.log("C08 %s: %d model states, %d transitions, %d maximal histories" % (consts, g.distinct, nexp, len(scens)))
        total_scn += len(scens)
        if not rep.cov["samples"]:
            rep.cov["samples"] = [s["ops"] for s in scens[:: max(1, len(scens) // 3)][:3]]
        for i in range(0, len(scens), 60000):     # bounded memory: judge in chunks
            judge(rep, pid, scens[i:i + 60000], "bfs%d.%d" % (total_scn, i))
        # the same histories under other index bit sizes (a bit size that is not a multiple of 8 leaves spare bits of the
        # partly consumed byte in the stored key): a sample per size
        # (the bucket table of a real index has 2^bits entries: fewer histories for the large sizes)
        plan = {12: 4000, 16: 1500, 20: 600} if vlib.tier() == "quick" else {12: 40000, 16: 15000, 20: 6000, 24: 400}
        for bits, per in plan.items():
            sub = [dict(s, bits=bits) for s in rng.sample(scens, min(per, len(scens)))]
            judge(rep, pid, sub, "bits%d.%d" % (bits, total_scn))
            rep.cov.setdefault("histories_replayed_under_other_bit_sizes", 0)
            rep.cov["histories_replayed_under_other_bit_sizes"] += len(sub)
    # 3. random longer histories over larger alphabets
    n, depth = (800, 40) if vlib.tier() == "quick" else (6000, 80)
    rs = random_scenarios(rng, n, depth)
    rep.cov["samples"].append(rs[0]["ops"][:12])
    judge(rep, pid, rs, "rand")
    rep.cov["exhaustive"] = exhaustive
    rep.cov["distinct_nontrivial"] = total_scn + n
    rep.cov["rule"] = ("one history per reachable TRANSITION of RecordList.tla (BFS shortest path to the source state + the step; maximal histories only) replayed on a real "
                       "index.Index over the in-memory primary, plus seeded random histories over larger alphabets; distinct by op sequence; "
                       "non-trivial = at least one insert into a non-empty bucket")
    rep.assumptions = ["TLC + Json module", "keys equal-length and distinct (as the property states)", "in-memory primary returns the key it was given"]
    return rep.finish()


def replay(pid, path):
    rep = vlib.Report(pid, replay=True)
    with open(path) as f:
        obj = json.load(f)
    vlib.build_harness()
    bad = judge(rep, pid, [obj["scenario"]], "replay")
    print("replay: %d offending lines" % len(bad))
    return rep.finish()
