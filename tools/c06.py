"""C06 - collectors running concurrently.  StoreConcGC.tla is model-checked; its schedules
(client call x commit x index-GC cycle x primary-GC cycle with relocation) are replayed on a
real store whose files are shaped by sequential setups; lock-probe schedules park one thread at
each of its yield points and run another to completion; a free-running stress with both
collectors (gated against the two known windows) is checked by RegTrace.tla."""
import json, os, random
import vlib, conceng
from c05 import witnesses

ALL_STOPS = conceng.CLIENT_STOPS + conceng.FLUSH_STOPS + conceng.IGC_STOPS + conceng.PGC_STOPS
SETUPS = [
    [],
    [{"op": "put", "k": "A", "v": 2}, {"op": "flush"}],
    [{"op": "put", "k": "B", "v": 1}, {"op": "flush"}, {"op": "put", "k": "A", "v": 2}, {"op": "flush"}],
    [{"op": "put", "k": "B", "v": 1}, {"op": "flush"}, {"op": "put", "k": "C", "v": 1}, {"op": "flush"}, {"op": "rem", "k": "B"}, {"op": "flush"}],
    [{"op": "put", "k": "A", "v": 2}, {"op": "flush"}, {"op": "prigc"}, {"op": "put", "k": "B", "v": 1}, {"op": "put", "k": "A", "v": 3}, {"op": "flush"}],
]


EVICT = [{"op": "put", "k": "C", "v": 1}, {"op": "flush"}, {"op": "rem", "k": "C"}, {"op": "flush"}]   # curPool no longer holds bucket 7: lookups read the files
SETUPS = SETUPS + [s + EVICT for s in SETUPS[:3]]


def probes():
    """lock probes: park thread X at each of its yield points, run thread Y to completion, finish.
    On the unchanged code Y blocks wherever a lock protects X's section; if the lock is gone the
    interleaving happens and the recorded history is judged like any other."""
    out = []
    parked = {"f": conceng.FLUSH_STOPS, "ig": conceng.IGC_STOPS, "pg": conceng.PGC_STOPS}
    for x, pts in parked.items():
        for i in range(1, len(pts) + 1):
            for y in ("f", "ig", "pg", "c", "f2"):
                if y == x:
                    continue
                for op in ([{"op": "get", "k": "A", "v": 0}, {"op": "put", "k": "A", "v": 4}, {"op": "put", "k": "C", "v": 1}] if y == "c" else [None]):
                    prog = {"c": op} if op else {"c": {"op": "get", "k": "B", "v": 0}}
                    sched = [x] * i + [y] * 40 + [x] * 40
                    if not op:
                        sched += ["c"] * 10
                    out.append({"prog": prog, "schedule": sched, "probe": "%s@%d/%s" % (x, i, y)})
    return out


def run(pid):
    rep = vlib.Report(pid)
    rng = random.Random(vlib.seed())
    vlib.build_harness()
    thorough = vlib.tier() == "thorough"
    total = 0
    # 1. model + its schedules
    consts = {"Ops": '{"get", "put", "rem"}', "Reloc": "TRUE", "AllowKnown": "FALSE", "MaxRecs": 4 if not thorough else 5}
    r = vlib.tlc_must("MCStoreConcGC", "MCStoreConcGC_mc.cfg", consts=consts, timeout=1500)
    if r.violated:
        raise vlib.Infra("StoreConcGC.tla violates Undisturbed outside the known findings; replay the counter-example first:\n" + r.out[-2500:])
    rep.add_model(r)
    scheds, g, nexp = vlib.gen_scenarios("MCStoreConcGC", "MCStoreConcGC", consts, edges=True, key=lambda s: s["schedule"])
    vlib.log("C06: %d model states, %d transitions, %d maximal schedules" % (g.distinct, nexp, len(scheds)))
    scens = []
    for s in scheds:
        for si, setup in enumerate(SETUPS if thorough else rng.sample(SETUPS, 2)):
            op = dict(s["op"], k="A")
            scens.append({"prog": {"c": op}, "init": ["A"], "imm": False, "schedule": s["schedule"], "stops": ALL_STOPS,
                          "il": 30, "pl": 30, "lowUse": rng.choice([0, 0, 85]), "setup": setup, "noScan": rng.random() < 0.5})
    if not thorough and len(scens) > 3000:
        scens = rng.sample(scens, 3000)
    # 2. lock probes under every setup
    pr = []
    dirty = [{"op": "put", "k": "C", "v": 2}, {"op": "put", "k": "A", "v": 3}]   # unflushed work for the parked flusher
    for p in probes():
        for setup in SETUPS[1:]:
            pr.append(dict(p, init=["A"], imm=False, stops=ALL_STOPS, il=30, pl=30, lowUse=0, setup=setup + dirty, noScan=True))
            if thorough:
                pr.append(dict(p, init=["A"], imm=False, stops=ALL_STOPS, il=70, pl=70, lowUse=50, setup=setup, noScan=False))
    vlib.log("C06: %d model schedules x setups, %d lock probes" % (len(scens), len(pr)))
    allsc = scens + pr
    by = conceng.judge(rep, allsc, "gc")
    total += len(allsc)
    rep.cov["samples"] = [{"prog": allsc[0]["prog"], "schedule": allsc[0]["schedule"], "setup": allsc[0]["setup"]},
                          {"probe": pr[0]["probe"], "schedule": pr[0]["schedule"][:12]}]
    classified = {}
    for t, rules in by.items():
        kfid, real = conceng.split_known(rules)
        if kfid:
            classified[kfid] = classified.get(kfid, 0) + 1
        else:
            rep.violation("rules %s" % ",".join(sorted(real)), {"engine": "conc", "scenario": allsc[t], "rules": sorted(real)})
    rep.cov["bulk_failures_attributed_to_known_findings"] = classified
    # 3. free-running: both collectors in a loop, started flusher, 2 extra flush callers; collector segments gated
    rounds = 24 if thorough else 6
    base = dict(buckets=32, writers=4, readers=4, keys=96, writes=1200, reads=1500, flushers=2, idxgc=True, prigc=True, gate=True, pl=4096, il=2048, owngc=False)
    st = [dict(base, seed=vlib.seed() * 100 + i, lowUse=[101, 50, 0][i % 3]) for i in range(rounds)]
    d = vlib.subdir("c06.stress")
    sf = os.path.join(d, "scen.ndjson")
    vlib.write_ndjson(sf, st)
    files, summ = vlib.run_harness("stress", sf, os.path.join(d, "trace"), workers=min(6, vlib.WORKERS), timeout=3000)
    bad, nlines, _ = vlib.validate_traces("RegTrace", "RegTrace.cfg", files)
    rep.cov["evaluations"] += nlines
    rep.cov["traces_validated_against_impl"] += len(st)
    rep.cov["free_running_events"] = nlines
    seen = {}
    for b in bad:
        seen.setdefault(b["t"], set()).add(b["rule"])
    for c in summ.get("crashed", []):
        seen.setdefault(c["t"], set()).add("process-crash-or-hang")
    for t, rules in seen.items():
        rep.violation("free-running history: %s" % ",".join(sorted(rules)), {"engine": "stress", "scenario": st[t], "rules": sorted(rules)})
    # 4. known findings: pinned witnesses
    for w, sc in witnesses(pid, "findings"):
        byw = conceng.judge(rep, [sc], "kf")
        kfid, real = conceng.split_known(byw.get(0, []))
        if byw and kfid == w["id"]:
            rep.known.append("%s: %s (witness %s still fails with rules %s)" % (w["id"], w["title"], w["witness"], ",".join(byw[0])))
        elif byw:
            rep.violation("pinned witness of %s fails with an unlisted symptom %s" % (w["id"], byw[0]), {"engine": "conc", "scenario": sc, "rules": byw[0]})
        else:
            vlib.log("known finding %s no longer reproduces on its witness" % w["id"])
    # further witnesses of a finding with their OWN expected symptoms: the same window reached through another call
    # (a change that makes the recorded defect worse - another symptom in the same window - is reported)
    for w in vlib.known_findings().get("findings", []):
        if w.get("property") != pid:
            continue
        for path in w.get("more_witnesses", []):
            wo = json.load(open(os.path.join(vlib.VERIF, path)))
            byw = conceng.judge(rep, [wo["scenario"]], "kf2")
            got = sorted(r for r in byw.get(0, []) if not str(r).startswith("window:"))
            if got and set(got) <= set(wo.get("expect", [])):
                # (reported with the finding's main witness above; one KNOWN-FINDING line per finding)
                vlib.log("known finding %s: further witness %s still fails with rules %s" % (w["id"], path, ",".join(got)))
                rep.cov["further_witnesses_of_known_findings_still_failing_as_listed"] = rep.cov.get("further_witnesses_of_known_findings_still_failing_as_listed", 0) + 1
            elif got:
                rep.violation("pinned witness %s of %s fails with an unlisted symptom %s (listed for this witness: %s)" % (path, w["id"], got, wo.get("expect")),
                              {"engine": "conc", "scenario": wo["scenario"], "rules": got})
            else:
                vlib.log("known finding %s no longer reproduces on its witness %s" % (w["id"], path))
    for w, sc in witnesses(pid, "fixed"):
        byw = conceng.judge(rep, [sc], "fx")
        for t, rules in byw.items():
            rep.violation("witness of a repaired defect fails again: %s" % ",".join(rules), {"engine": "conc", "scenario": sc, "rules": rules})
    rep.cov["exhaustive"] = False
    rep.cov["distinct_nontrivial"] = total
    rep.cov["rule"] = ("one schedule per TRANSITION of StoreConcGC.tla (a Get/Put/Remove x one commit x one index-GC cycle x one primary-GC cycle with relocation), replayed by thread choice under sequential setups that "
                       "leave superseded index and primary records, pending freelist entries and several files (limits of 30 B: every record starts a file); lock probes (each collector / flusher yield point x every other thread run to completion); "
                       "free-running rounds with both collectors in a loop, the started flusher and 2 extra Flush callers, 96 keys over 32 adjacent buckets with a skewed write distribution (a collector cycle excludes foreground calls so that the two known windows cannot open; cycles overlap with flushes and with each other). "
                       "Behaviours that fire KF-C06-idx-read-after-reap / KF-C06-stale-primary-loc are guarded out of the model schedules and run as pinned witnesses")
    rep.assumptions = ["TLC + Json module", "thread-choice replay: when the code's yield sequence differs from the model's step sequence the schedule is followed by thread name only; verdicts come from the recorded history alone",
                       "single-writer keys in the free-running histories (atomic-register conditions = linearizability)"]
    return rep.finish()


def replay(pid, path):
    rep = vlib.Report(pid, replay=True)
    with open(path) as f:
        obj = json.load(f)
    vlib.build_harness()
    if obj.get("engine") == "stress":
        print("free-running histories are not deterministic; re-run the check with the same VERIF_SEED")
        return 2
    by = conceng.judge(rep, [obj["scenario"]], "replay")
    for t, rules in by.items():
        rep.violation("rules %s" % ",".join(rules), {"engine": "conc", "scenario": obj["scenario"], "rules": rules})
    print("replay: rules %s" % (by.get(0) or []))
    return rep.finish()
