"""Shared plumbing for the /verif checks: environment, Go build, TLC runs,
scenario extraction, trace validation, known findings, evidence files."""
import atexit, hashlib, json, os, random, re, shutil, signal, subprocess, sys, tempfile, time

VERIF = os.path.dirname(os.path.dirname(os.path.abspath(__file__)))
REPO = os.environ.get("VERIF_REPO", "/repo")
SPEC = os.path.join(VERIF, "spec")
HARNESS = os.path.join(VERIF, "harness")
TLA_CP = "/opt/veriftools/tla/tla2tools.jar:/opt/veriftools/tla/CommunityModules-deps.jar"
WORKERS = int(os.environ.get("VERIF_WORKERS", "0") or 0) or min(16, os.cpu_count() or 4)

EXIT_OK, EXIT_VIOLATION, EXIT_INFRA = 0, 1, 2
HARNESS_AS_LIMIT = 24 << 30


class Infra(Exception):
    """Infrastructure failure: never a verdict (exit 2)."""


def seed():
    try:
        return int(os.environ.get("VERIF_SEED", "1"))
    except ValueError:
        return 1


def tier(default="quick"):
    t = os.environ.get("VERIF_TIER", default)
    return t if t in ("quick", "thorough") else default


_scratch = None


def scratch():
    """Per-process scratch directory (tmpfs when available), removed at exit."""
    global _scratch
    if _scratch is None:
        base = os.environ.get("VERIF_SCRATCH")
        if not base:
            base = "/dev/shm" if os.path.isdir("/dev/shm") and os.access("/dev/shm", os.W_OK) else tempfile.gettempdir()
        _reap_stale(base)
        _scratch = tempfile.mkdtemp(prefix="verif.%d." % os.getpid(), dir=base)
        atexit.register(_cleanup)
        signal.signal(signal.SIGTERM, lambda *a: sys.exit(EXIT_INFRA))
    return _scratch


def _reap_stale(base):
    """remove scratch directories left by runs of this tool that were killed (tmpfs space is memory)"""
    try:
        for n in os.listdir(base):
            m = re.match(r"verif\.(\d+)\.", n)
            if m and not os.path.exists("/proc/%s" % m.group(1)):
                shutil.rmtree(os.path.join(base, n), ignore_errors=True)
    except OSError:
        pass


def _cleanup():
    if _scratch and not os.environ.get("VERIF_KEEP"):
        shutil.rmtree(_scratch, ignore_errors=True)


def subdir(name):
    p = os.path.join(scratch(), name)
    os.makedirs(p, exist_ok=True)
    return p


# ---------------------------------------------------------------- Go build

def go_env():
    env = dict(os.environ)
    env.update({"GOFLAGS": "-mod=mod", "GOPROXY": "off", "GOSUMDB": "off", "GOTOOLCHAIN": "local", "GONOSUMDB": "*", "GONOSUMCHECK": "1"})
    return env


def go_bin():
    cands = ["/root/go/pkg/mod/golang.org/toolchain@v0.0.1-go1.25.0.linux-amd64/bin/go",
             shutil.which("go1.26") or "", shutil.which("go") or ""]
    for c in cands:
        if c and os.path.exists(c):
            return c
    raise Infra("no go toolchain found")


_built = {}


def build_harness(tags="verif"):
    """Build the harness binary against /repo's current working tree."""
    if tags in _built:
        return _built[tags]
    out = os.path.join(scratch(), "vrun-" + (tags or "notag"))
    src_sum = os.path.join(REPO, "go.sum")
    if os.path.exists(src_sum):
        shutil.copyfile(src_sum, os.path.join(HARNESS, "go.sum"))
    cmd = [go_bin(), "build", "-tags", tags, "-o", out]
    if os.path.realpath(REPO) != "/repo":
        # development aid: build against a scratch worktree (VERIF_REPO) without touching harness/go.mod
        alt = os.path.join(scratch(), "alt.mod")
        with open(os.path.join(HARNESS, "go.mod")) as f:
            txt = f.read().replace("=> /repo", "=> " + os.path.realpath(REPO))
        with open(alt, "w") as f:
            f.write(txt)
        shutil.copyfile(src_sum, os.path.join(scratch(), "alt.sum"))
        cmd += ["-modfile", alt]
    cmd += ["./cmd/vrun"]
    t0 = time.time()
    p = subprocess.run(cmd, cwd=HARNESS, env=go_env(), stdout=subprocess.PIPE, stderr=subprocess.STDOUT, text=True)
    if p.returncode != 0:
        # a tree that does not compile is not a property verdict
        raise Infra("harness build failed:\n" + p.stdout[-4000:])
    _built[tags] = out
    log("built harness in %.1fs" % (time.time() - t0))
    return out


_T0 = time.time()


def log(msg):
    print("[verif +%.0fs] %s" % (time.time() - _T0, msg), file=sys.stderr, flush=True)


# ---------------------------------------------------------------- TLC

class TLCResult:
    def __init__(self, rc, out, wall):
        self.rc, self.out, self.wall = rc, out, wall
        self.states = self.distinct = 0
        m = re.findall(r"(\d+) states generated, (\d+) distinct states found", out)
        if m:
            self.states, self.distinct = int(m[-1][0]), int(m[-1][1])
        m = re.search(r"Finished computing initial states: (\d+) distinct state", out)
        self.init_states = int(m.group(1)) if m else 1
        self.violated = rc in (12, 13) or ("is violated" in out) or ("Error: Deadlock" in out) or ("Temporal properties were violated" in out)
        self.error = (rc not in (0, 12, 13)) and not self.violated

    def printed(self, tag):
        """Values printed by PrintT(<<tag, "json">>) -> list of python objects."""
        res = []
        pre = '<<"%s", "' % tag
        for line in self.out.splitlines():
            if line.startswith(pre) and line.endswith('">>'):
                s = line[len(pre):-3]
                s = s.replace('\\"', '"').replace('\\\\', '\\')
                try:
                    res.append(json.loads(s))
                except ValueError:
                    pass
        return res


def prepare_specdir(name):
    d = subdir("tlc." + name)
    for f in os.listdir(SPEC):
        if f.endswith((".tla", ".cfg")):
            shutil.copyfile(os.path.join(SPEC, f), os.path.join(d, f))
    return d


def tlc(module, cfg, name=None, workers=None, args=(), timeout=600, env=None, heap="4g", consts=None, specdir=None, deque=False, defs=None):
    """Run TLC on spec/<module>.tla with spec/<cfg>. `consts` (dict) is appended to a
    copy of the cfg as CONSTANT assignments so one cfg serves several bounds."""
    name = name or (module + "." + os.path.splitext(os.path.basename(cfg))[0])
    d = specdir or prepare_specdir(name)
    cfgpath = os.path.join(d, os.path.basename(cfg))
    if consts:
        with open(cfgpath) as f:
            txt = f.read()
        txt += "\nCONSTANTS\n" + "".join("  %s = %s\n" % (k, v) for k, v in consts.items())
        cfgpath = os.path.join(d, "_gen_" + os.path.basename(cfg))
        with open(cfgpath, "w") as f:
            f.write(txt)
    if defs:
        # constants that a .cfg cannot express (tuples, records): define them in a wrapper module
        wrap = module + "_run"
        with open(os.path.join(d, wrap + ".tla"), "w") as f:
            f.write("---- MODULE %s ----\nEXTENDS %s\n" % (wrap, module))
            for k, v in defs.items():
                f.write("c_%s == %s\n" % (k, v))
            f.write("====\n")
        with open(cfgpath) as f:
            txt = f.read()
        txt += "\nCONSTANTS\n" + "".join("  %s <- c_%s\n" % (k, k) for k in defs)
        cfgpath = os.path.join(d, "_def_" + os.path.basename(cfg))
        with open(cfgpath, "w") as f:
            f.write(txt)
        module = wrap
    meta = os.path.join(d, "meta.%d" % random.randrange(1 << 30))
    jopts = ["-XX:+UseParallelGC", "-Xmx" + heap, "-Xss512m"]
    if deque:
        jopts.append("-Dtlc2.tool.queue.IStateQueue=StateDeque")
    cmd = ["java"] + jopts + ["-cp", TLA_CP, "tlc2.TLC", "-noGenerateSpecTE", "-metadir", meta,
           "-workers", str(workers or WORKERS), "-config", cfgpath] + list(args) + [module + ".tla"]
    e = dict(os.environ)
    e.pop("JAVA_TOOL_OPTIONS", None)
    if env:
        e.update(env)
    t0 = time.time()
    try:
        p = subprocess.run(cmd, cwd=d, env=e, stdout=subprocess.PIPE, stderr=subprocess.STDOUT, text=True, timeout=timeout)
    except subprocess.TimeoutExpired as ex:
        subprocess.run(["pkill", "-f", meta], check=False)
        raise Infra("TLC timeout after %ss on %s/%s" % (timeout, module, cfg))
    finally:
        shutil.rmtree(meta, ignore_errors=True)
    r = TLCResult(p.returncode, p.stdout, time.time() - t0)
    return r


def tlc_must(module, cfg, **kw):
    r = tlc(module, cfg, **kw)
    if r.error:
        raise Infra("TLC failed on %s/%s (rc=%d):\n%s" % (module, cfg, r.rc, r.out[-3000:]))
    return r


def gen_scenarios(module, cfg_prefix, consts, edges=True, timeout=1500, key=lambda s: s["ops"], workers=None):
    """Scenarios from the model's state graph: one per transition (edges) or one per
    state, as BFS shortest histories; proper prefixes of other scenarios are dropped.
    Returns (scenarios, tlc result, number exported)."""
    cfg = cfg_prefix + ("_edges.cfg" if edges else "_gen.cfg")
    g = tlc_must(module, cfg, consts=consts, timeout=timeout, workers=workers)
    scens = g.printed("SCN")
    want = (g.states - g.init_states) if edges else g.distinct
    if len(scens) < want:
        raise Infra("scenario export incomplete for %s: %d scenarios, expected %d" % (module, len(scens), want))
    n = len(scens)
    return drop_prefixes(scens, key=key), g, n


# ---------------------------------------------------------------- trace validation

def validate_traces(module, cfg, trace_files, timeout=900, heap="3g", par=None, extra_env=None, consts=None):
    """Run the total-monitor trace spec on each ndjson file (in parallel). Returns
    (bad, nlines, states) where bad is a list of dicts {file, t, i, rule,...} printed
    by the monitor's POSTCONDITION. A monitor that does not consume its whole trace
    or crashes is an infrastructure failure."""
    import concurrent.futures as cf
    d = prepare_specdir("val." + module)
    bad, nlines, states = [], 0, 0
    par = par or max(1, min(len(trace_files), WORKERS // 2))

    def one(tf):
        n = sum(1 for _ in open(tf))
        if n == 0:
            return tf, n, None
        env = {"VTRACE": tf}
        if extra_env:
            env.update(extra_env)
        r = tlc(module, cfg, workers=1, timeout=timeout, env=env, heap=heap, specdir=d, name="val", consts=consts)
        return tf, n, r

    with cf.ThreadPoolExecutor(max_workers=par) as ex:
        for tf, n, r in ex.map(one, trace_files):
            if r is None:
                continue
            nlines += n
            states += r.distinct
            rep = r.printed("VBAD")
            done = r.printed("VDONE")
            if r.error or not done or done[-1].get("consumed") != n:
                i = r.out.find("Error:")
                keep = os.path.join(tempfile.gettempdir(), "verif-failed-trace.ndjson")
                shutil.copyfile(tf, keep)
                raise Infra("trace monitor %s did not consume %s (%d lines, copy kept at %s): rc=%d\n%s" % (
                    module, tf, n, keep, r.rc, r.out[i:i + 2500] if i >= 0 else r.out[-2500:]))
            for b in (rep[-1] if rep else []):
                b["file"] = tf
                bad.append(b)
    return bad, nlines, states


# ---------------------------------------------------------------- harness runs

def _run_harness_once(engine, scen_file, out_prefix, w, extra, timeout, tags, env):
    binp = build_harness(tags)
    rundir = out_prefix + ".dir"
    os.makedirs(rundir, exist_ok=True)
    cmd = [binp, engine, "-in", scen_file, "-out", out_prefix, "-workers", str(w), "-dir", rundir] + list(extra)
    e = dict(os.environ)
    e["GOLOG_LOG_LEVEL"] = "fatal"
    if env:
        e.update(env)
    for i in range(64):
        for suf in (".ndjson", ".cur"):
            try:
                os.unlink(out_prefix + ".%d%s" % (i, suf))
            except OSError:
                pass
    def limit():
        # address-space ceiling far above what the harness needs (< 2 GiB): a runaway allocation of the code under
        # test then ends as a Go "fatal error: ... out of memory" with a stack, not as an anonymous OOM kill
        import resource
        try:
            resource.setrlimit(resource.RLIMIT_AS, (HARNESS_AS_LIMIT, HARNESS_AS_LIMIT))
        except (ValueError, OSError):
            pass
    try:
        p = subprocess.run(cmd, env=e, stdout=subprocess.PIPE, stderr=subprocess.PIPE, text=True, timeout=timeout, preexec_fn=limit)
    except subprocess.TimeoutExpired:
        raise Infra("harness %s timed out" % engine)
    return p


def run_harness(engine, scen_file, out_prefix, workers=None, extra=(), timeout=1800, tags="verif", env=None):
    """vrun <engine> -in scen.ndjson -out prefix -workers N  -> (trace files, summary).
    If the harness PROCESS dies (fatal runtime error, out of memory, a call that never
    returns), the scenarios that were running are re-executed one by one in fresh
    processes; those that kill the process again on their own are listed in
    summary["crashed"] (a reproducible crash of the code under test, to be reported by the
    caller), are skipped, and the batch is run again."""
    w = workers or WORKERS
    crashed = []
    import glob as _glob
    for attempt in range(6):
        for stale in _glob.glob(out_prefix + ".*"):        # partial traces of an attempt that died must not be judged
            if os.path.isfile(stale) and ".one" not in os.path.basename(stale):
                os.unlink(stale)
        p = _run_harness_once(engine, scen_file, out_prefix, w, extra, timeout, tags, env)
        if p.returncode == 0:
            break
        if p.returncode in (64, 65):
            raise Infra("harness %s failed rc=%d:\n%s\n%s" % (engine, p.returncode, p.stdout[-2000:], p.stderr[-4000:]))
        # the process died: find the scenarios in flight
        cands = set()
        for i in range(w):
            try:
                with open(out_prefix + ".%d.cur" % i) as f:
                    v = int(f.read().strip() or -1)
                if v >= 0:
                    cands.add(v)
            except (OSError, ValueError):
                pass
        lines = open(scen_file).read().splitlines()
        import concurrent.futures as cf

        def alone(c):
            one = "%s.one%d" % (scen_file, c)
            with open(one, "w") as f:
                f.write(lines[c] + "\n")
            try:
                q = _run_harness_once(engine, one, "%s.one%d" % (out_prefix, c), 1, extra, 300, tags, env)
            except Infra:
                # alone it does not finish within five minutes: a call that never returns (or recoveries that crawl)
                import types as _types
                q = _types.SimpleNamespace(returncode=124, stderr="the scenario alone did not finish within 300 s", stdout="")
            return c, q
        culprits = []
        with cf.ThreadPoolExecutor(max_workers=8) as ex:
            for c, q in ex.map(alone, sorted(cands)):
                if q.returncode not in (0, 64, 65):
                    culprits.append((c, (q.stderr or "")[-600:]))
        err_txt = p.stderr or ""
        if not culprits and p.returncode == 2 and "panic:" not in err_txt and "fatal error:" in err_txt:
            err_txt = err_txt.replace("fatal error:", "panic: fatal error:", 1)
        if not culprits and p.returncode == 2 and "panic:" in err_txt:
            # Go panic. If the panicking goroutine has no harness frame it is a goroutine the LIBRARY started
            # (flusher, collector, an orphaned cycle): that is a failure of the code under test even if timing
            # keeps it from reproducing in isolation. It is attributed to the scenarios that were in flight.
            blocks = err_txt[err_txt.find("panic:"):].split("\n\n")
            first = "\n\n".join(blocks[:2])        # the message and the stack of the panicking goroutine
            if "go-storethehash" in first and "verif/harness" not in first:
                for c in sorted(cands):
                    culprits.append((c, "panic in a goroutine started by the library (not reproducible in isolation):\n" + first[-900:]))
        if not culprits:
            if w > 1:
                # nothing crashes alone: probably memory pressure from running in parallel; retry narrower
                w = max(1, w // 4)
                log("harness %s died (rc=%d), no single scenario reproduces it; retrying with %d workers" % (engine, p.returncode, w))
                continue
            raise Infra("harness %s died (rc=%d) but no single scenario reproduces it:\n%s" % (engine, p.returncode, p.stderr[-3000:]))
        for c, why in culprits:
            log("scenario %d kills the harness process on its own: %s" % (c, why.strip().splitlines()[0] if why.strip() else "killed"))
            crashed.append({"t": c, "why": why})
            lines[c] = '{"skip":true}'
        with open(scen_file, "w") as f:
            f.write("\n".join(lines) + "\n")
        if len(crashed) >= 3:
            # enough reproducible crashes for a verdict; do not grind through the rest of the batch
            log("harness %s: %d scenarios kill or hang the process on their own; batch abandoned" % (engine, len(crashed)))
            return [], {"crashed": crashed, "aborted": True}
    else:
        raise Infra("harness %s keeps dying" % engine)
    files = sorted(f for f in (out_prefix + ".%d.ndjson" % i for i in range(workers or WORKERS)) if os.path.exists(f))
    summary = {}
    for line in p.stdout.splitlines():
        if line.startswith("SUMMARY "):
            summary = json.loads(line[8:])
    summary["crashed"] = crashed
    return files, summary


def write_ndjson(path, items):
    with open(path, "w") as f:
        for it in items:
            f.write(json.dumps(it, separators=(",", ":")) + "\n")


def read_ndjson(path):
    with open(path) as f:
        return [json.loads(l) for l in f if l.strip()]


def scen_hash(obj):
    return hashlib.sha1(json.dumps(obj, sort_keys=True, separators=(",", ":"), default=str).encode()).hexdigest()[:16]


def drop_prefixes(scens, key=lambda s: s):
    """Keep only scenarios (lists of ops) that are not a proper prefix of another one."""
    ser = sorted((json.dumps(key(s), sort_keys=True, separators=(",", ":"))[:-1], i) for i, s in enumerate(scens))
    keep = []
    for j, (s, i) in enumerate(ser):
        if j + 1 < len(ser) and ser[j + 1][0].startswith(s) and (len(ser[j + 1][0]) == len(s) or ser[j + 1][0][len(s)] == ","):
            continue
        keep.append(scens[i])
    return keep


# ---------------------------------------------------------------- known findings

def known_findings():
    p = os.path.join(VERIF, "known_findings.json")
    if not os.path.exists(p):
        return {"findings": [], "fixed": []}
    with open(p) as f:
        return json.load(f)


# ---------------------------------------------------------------- evidence / verdict

class Report:
    def __init__(self, pid, level="model_checking", replay=False):
        self.pid, self.level, self.is_replay = pid, level, replay
        self.t0 = time.time()
        self.cov = {"states": 0, "transitions": 0, "traces_validated_against_impl": 0, "samples": [],
                    "evaluations": 0, "distinct_nontrivial": 0, "rule": "", "exhaustive": False}
        self.assumptions = []
        self.violations = []   # (what, replay_path)
        self.known = []        # text lines

    def add_model(self, r):
        self.cov["states"] += r.distinct
        self.cov["transitions"] += r.states

    def violation(self, what, replay_obj):
        self.violations.append((what, replay_obj))

    def _write_replays(self, limit=5):
        d = os.path.join(VERIF, "evidence", "replay")
        os.makedirs(d, exist_ok=True)
        for f in os.listdir(d):
            if f.startswith(self.pid + "-") and not self.is_replay:
                os.unlink(os.path.join(d, f))
        out = []
        ranked = sorted(self.violations, key=lambda v: len(json.dumps(v[1], default=str)))
        for what, obj in ranked[:limit]:
            path = os.path.join(d, "%s-%s.json" % (self.pid, scen_hash(obj)))
            with open(path, "w") as f:
                json.dump(obj, f, indent=1, default=str)
            out.append((what, path))
        return out

    def finish(self):
        written = self._write_replays()
        ev = {"property_id": self.pid, "tier": tier(), "seed": seed(), "level": self.level,
              "coverage": self.cov, "assumptions": self.assumptions,
              "wall_s": round(time.time() - self.t0, 2), "violations": len(self.violations),
              "known_findings_reported": self.known}
        if not self.cov["samples"]:
            self.cov["samples"] = ["(none)"]
        os.makedirs(os.path.join(VERIF, "evidence"), exist_ok=True)
        if not self.is_replay:
            with open(os.path.join(VERIF, "evidence", self.pid + ".json"), "w") as f:
                json.dump(ev, f, indent=1, default=str)
        for k in self.known:
            print("KNOWN-FINDING: property=%s %s" % (self.pid, k))
        for what, path in written:
            print("VIOLATION property=%s replay=%s  # %s" % (self.pid, path, what))
        if self.violations:
            print("(%d violating cases in total; %d smallest written)" % (len(self.violations), len(written)))
            return EXIT_VIOLATION
        print("OK property=%s tier=%s seed=%d states=%d traces=%d evaluations=%d wall=%.1fs" % (
            self.pid, tier(), seed(), self.cov["states"], self.cov["traces_validated_against_impl"],
            self.cov["evaluations"], time.time() - self.t0))
        return EXIT_OK
