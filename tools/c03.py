"""C03 (crash at any instant), C09 crash clause (interrupted re-bucketing), C10 (legacy upgrade incl.
interruption).  One engine: the scenario runs in a child under strace, every intermediate directory
image (and torn writes) is rebuilt from the log, the real OpenStore runs on each, TLC judges with
CrashTrace.tla (Durable.tla); continuations after recovery are judged by StoreTrace / FsckTrace."""
import glob, json, os, random
import vlib, seqeng

CONT = [{"op": "put", "k": 1, "v": 4}, {"op": "put", "k": 2, "v": 3}, {"op": "rem", "k": 3}, {"op": "flush"},
        {"op": "prigc", "lowUse": 0, "deadline": 0}, {"op": "idxgc", "scanFree": True, "deadline": 0}, {"op": "flush"},
        {"op": "prigc", "lowUse": 0, "deadline": 0}, {"op": "put", "k": 4, "v": 5}, {"op": "reopen", "snap": "drop"}]
KF_TORN = "KF-C03-torn-primary-tail"
KF_TRANS = "KF-C09-interrupted-translation"
KF_CLEANUP = "KF-C10-interrupted-cleanup-of-unusable-entries"
KF_CLEANUP_SYMPTOMS = [f for f in vlib.known_findings().get("findings", []) if f["id"] == KF_CLEANUP][0]["symptom"]["rules"]
KNOWN_EXAMPLES = []


def load_cases(files):
    cases = {}
    for f in files:
        for line in open(f):
            e = json.loads(line)
            if e["e"] == "crashcase":
                cases[(e["t"], e["i"])] = e
    return cases


def torn_primary(e):
    return e.get("fskind") == "append" and e.get("cut", -1) >= 0 and str(e.get("fsfile", "")).startswith("data.")


def run_crash(rep, scens, label, workers=None, collect=None, confirm=True, extra_rules=None):
    """-> (violations [(what, replay)], known {id: count}, summary); `collect` (a list) receives every crash case.
    A failing image is a verdict only if it fails again when its scenario is traced a second time, restricted to the call
    in flight (the replay object): the reconstruction of images from the strace log of a multi-threaded child is the one
    part of this engine whose result can depend on timing (DESIGN.md 0A.6); an unreproduced failure is counted and logged."""
    viol, known, summ = _run_crash(rep, scens, label, workers, collect, extra_rules)
    if not viol or not confirm:
        return viol, known, summ
    kept, dropped = [], 0
    again = {}
    for what, obj in viol:
        key = json.dumps(obj["scenario"], sort_keys=True)
        if key not in again:
            v2, _, _ = _run_crash(vlib.Report(rep.pid, replay=True), [obj["scenario"]], label + ".confirm", 1, None, extra_rules)
            again[key] = v2
        def sig(o):   # same rules at the same kind of file-system call on the same file (call numbers and cuts may shift between runs)
            c = o.get("crash") or {}
            return (tuple(o.get("rules", [])), c.get("fskind"), c.get("fsfile"))
        if any(sig(o2) == sig(obj) for _, o2 in again[key]):
            kept.append((what, obj))
        else:
            dropped += 1
    if dropped:
        rep.cov["crash_failures_not_reproduced_on_a_second_trace"] = rep.cov.get("crash_failures_not_reproduced_on_a_second_trace", 0) + dropped
        vlib.log("%s: %d failing images did not fail again when their scenario was traced a second time (not a verdict; logs kept under /tmp/verif-unreproduced)" % (label, dropped))
    return kept, known, summ


def _run_crash(rep, scens, label, workers=None, collect=None, extra_rules=None):
    d = vlib.subdir("crash." + label)
    sf = os.path.join(d, "scen.ndjson")
    vlib.write_ndjson(sf, scens)
    logdir = os.path.join(d, "logs")
    files, summ = vlib.run_harness("crash", sf, os.path.join(d, "trace"), workers=workers or min(vlib.WORKERS, max(1, len(scens))), timeout=6000,
                                   env={"VERIF_CRASH_KEEPLOGS": logdir})
    cont = sorted(glob.glob(os.path.join(d, "trace.cont.*.ndjson")))
    if summ.get("aborted"):
        cont = []      # the batch was abandoned after several scenarios killed the process on their own: what the last attempt left is partial
    bad, n1, _ = vlib.validate_traces("CrashTrace", "CrashTrace.cfg", files)
    cases = load_cases(files)
    if collect is not None:
        collect.extend(cases.values())
    bycont = {e["cont"]: (k, e) for k, e in cases.items() if "cont" in e}
    bad2, n2, _ = vlib.validate_traces("StoreTrace", "StoreTrace.cfg", cont) if cont else ([], 0, 0)
    bad3, n3, _ = vlib.validate_traces("FsckTrace", "FsckTrace.cfg", cont, extra_env={"VRULES": "C07"}) if cont else ([], 0, 0)
    if extra_rules and cont:
        b4, _, _ = vlib.validate_traces("FsckTrace", "FsckTrace.cfg", cont, extra_env={"VRULES": extra_rules})
        bad3 = bad3 + [b for b in b4 if str(b["rule"]).startswith("F7")]
    rep.cov["evaluations"] += n1 + n2
    rep.cov["traces_validated_against_impl"] += len(cases)
    for k in ("crash_images", "fs_operations_traced", "recoveries_over_watchdog"):
        rep.cov[k] = rep.cov.get(k, 0) + summ.get(k, 0)
    viol, known = [], {}
    seen = set()
    bad = sorted(bad, key=lambda b: (b["t"], b["i"]))
    for b in bad:
        key = (b["t"], b["i"])
        if key in seen:
            continue
        if b["rule"] == "call-failed-in-traced-run":
            seen.add(key)
            viol.append(("a call of the traced run itself failed (no crash involved): see the 'op' events of the trace", {"engine": "crash", "scenario": scens[b["t"]], "rules": ["call-failed-in-traced-run"]}))
            continue
        seen.add(key)
        e = cases.get(key, {})
        rules = sorted({x["rule"] for x in bad if (x["t"], x["i"]) == key})
        if rules == ["interrupted-rebucketing-lost-keys"] and e.get("renamesBefore", 0) >= 1 and e.get("renamesAfter", 0) >= 1:
            # known finding: the crash point lies inside the move phase of translateIndex
            known[KF_TRANS] = known.get(KF_TRANS, 0) + 1
            continue
        viol.append(("%s (crash during %s at fs op #%s %s %s%s)" % (",".join(rules), e.get("inflight", {}).get("op"), e.get("fsop"), e.get("fskind"), e.get("fsfile"),
                      ", first %d bytes" % e["cut"] if e.get("cut", -1) >= 0 else ""),
                     {"engine": "crash", "scenario": dict(scens[b["t"]], onlyOps=[e.get("inflight", {}).get("idx", -1)], maxImgs=0, allTorn=True), "rules": rules,
                      "crash": {"fsop": e.get("fsop"), "cut": e.get("cut"), "fskind": e.get("fskind"), "fsfile": e.get("fsfile")}}))
    contbad = {}
    for b in bad2 + bad3:
        contbad.setdefault(b["t"], set()).add(b["rule"])
    for t, rules in contbad.items():
        if t not in bycont:
            continue
        (st, _), e = bycont[t]
        if scens[st].get("mode") == "upgrade" and (scens[st].get("legacy") or {}).get("lost", 0) > 0 and (e.get("remapMarkersBefore", 0) >= 1 or (e.get("renamesBefore", 0) >= 1 and e.get("renamesAfter", 1) == 0)) \
                and rules <= set(KF_CLEANUP_SYMPTOMS):
            # known finding: interrupted after an index file holding unusable entries was remapped and before the final flush that drops them
            known[KF_CLEANUP] = known.get(KF_CLEANUP, 0) + 1
            KNOWN_EXAMPLES.append({"id": KF_CLEANUP, "scenario": dict(scens[st], onlyOps=[e["inflight"]["idx"]], maxImgs=0, allTorn=True), "rules": sorted(rules)})
            continue
        if torn_primary(e):
            known[KF_TORN] = known.get(KF_TORN, 0) + 1
            KNOWN_EXAMPLES.append({"scenario": dict(scens[st], onlyOps=[e["inflight"]["idx"]], maxImgs=0, allTorn=True), "rules": sorted(rules)})
            continue
        viol.append(("after recovery the continuation fails: %s (crash during %s at fs op #%s %s %s)" % (",".join(sorted(rules)), e["inflight"]["op"], e["fsop"], e.get("fskind"), e.get("fsfile")),
                     {"engine": "crash", "scenario": dict(scens[st], onlyOps=[e["inflight"]["idx"]], maxImgs=0, allTorn=True), "rules": sorted(rules),
                      "crash": {"fsop": e["fsop"], "cut": e["cut"], "fskind": e.get("fskind"), "fsfile": e.get("fsfile")}}))
    for c in summ.get("crashed", []):
        viol.append(("the crash harness dies or hangs on this scenario", {"engine": "crash", "scenario": scens[c["t"]], "rules": ["process-crash-or-hang"]}))
    for f in files + cont:
        os.unlink(f)
    if viol and not label.endswith(".confirm"):
        import shutil, time as _t
        keep = "/tmp/verif-unreproduced/%s.%d" % (label, int(_t.time()))
        os.makedirs(keep, exist_ok=True)
        for t in sorted({b["t"] for b in bad})[:6]:
            for ext in ("strace", "marks"):
                src = os.path.join(logdir, "%d.%s" % (t, ext))
                if os.path.exists(src):
                    shutil.copyfile(src, os.path.join(keep, "%d.%s" % (t, ext)))
        with open(os.path.join(keep, "viol.json"), "w") as f:
            json.dump([{"what": w, "obj": o} for w, o in viol[:20]], f)
    import shutil as _sh
    _sh.rmtree(logdir, ignore_errors=True)
    return viol, known, summ


def witnesses(pid, kind):
    out = []
    for w in vlib.known_findings().get(kind, []):
        if (w.get("property") == pid or pid in w.get("also", [])) and w.get("witness") and w["witness"].startswith("witness/") and "-crash" in w["witness"]:
            with open(os.path.join(vlib.VERIF, w["witness"])) as f:
                out.append((w, json.load(f)["scenario"]))
    return out


def scenarios_c03(rng, n, depth, maximgs, thorough):
    w = ["put"] * 5 + ["rem"] * 2 + ["flush"] * 3 + ["idxgc", "idxgc", "prigc", "reopen"]
    consts = seqeng.kv_consts(6, w, depth, deadlines=(0, 0, 1, 2, 3, 5), lowuses=(0, 85, 101))
    hs, r = seqeng.gen_histories(consts, "sim", num=n, seed=vlib.seed())
    cfgs = seqeng.sweep(rng, max(8, n), primaries=("mh", "mh", "mh", "cid"), limits=(30, 70, 200, 1 << 30), imm=(False, False, True))
    return [{"cfg": cfgs[i % len(cfgs)], "ops": h, "maxImgs": maximgs, "cont": CONT, "mode": "", "seed": vlib.seed() * 1000 + i, "allTorn": thorough} for i, h in enumerate(hs)], r


def scenarios_c09(rng, n, depth, maximgs, thorough):
    w = ["put"] * 6 + ["rem"] * 2 + ["flush"] * 2
    consts = seqeng.kv_consts(6, w, depth)
    hs, r = seqeng.gen_histories(consts, "sim", num=n, seed=vlib.seed() + 17)
    cfgs = seqeng.sweep(rng, max(8, n), primaries=("mh", "mh", "cid"), bits=(8, 9, 12), limits=(30, 70, 1 << 30), imm=(False,))
    out = []
    for i, h in enumerate(hs):
        c = cfgs[i % len(cfgs)]
        nb = rng.choice([b for b in (8, 9, 12, 16) if b != c["bits"]])
        ops = h + [{"op": "reopen", "snap": rng.choice(["keep", "drop"]), "bits": nb}]
        out.append({"cfg": c, "ops": ops, "maxImgs": maximgs, "cont": [], "mode": "rebucket", "seed": vlib.seed() * 1000 + i, "onlyOps": [len(ops) - 1], "allTorn": thorough})
    return out, r


def scenarios_c10(rng, n, maximgs, thorough):
    out = []
    for i in range(n):
        keys = seqeng.keyset(rng, 6)
        vals = [rng.choice([0, 1, 3, 4, 5, 5]) for _ in range(6)]
        freed = [k for k in range(1, 7) if rng.random() < 0.4]
        lim = rng.choice([30, 30, 70, 200, 1 << 30])
        cfg = {"primary": "mh", "bits": rng.choice([8, 9, 12]), "il": rng.choice([30, 70, 200, 1 << 30]), "pl": lim, "imm": False, "keys": keys, "vals": seqeng.VALS}
        # (an open interrupted by cancellation is generated only for legacy stores that lost nothing: with lost records it
        #  is another way into the known finding KF-C10-interrupted-cleanup-of-unusable-entries, whose trigger is computed
        #  for crash points)
        out.append({"cfg": cfg, "ops": [], "maxImgs": maximgs, "cont": CONT, "mode": "upgrade", "seed": vlib.seed() * 1000 + i, "onlyOps": [-1], "allTorn": thorough,
                    "legacy": {"vals": vals, "freed": freed, "pending": rng.random() < 0.6, "bits": cfg["bits"], "lost": rng.choice([0, 0, 1, 2, 3]), "torn": rng.choice([0, 0, 2, 6, 20]),
                               "ctxN": rng.choice([0, 0, 0] + list(range(1, 15)))}})
    for sc in out:
        if sc["legacy"]["lost"] > 0:
            sc["legacy"]["ctxN"] = 0
    return out


def cancel_clause_c10(rep, scens, label="C10ctx"):
    """C10, last clause, for interruption by a cancelled context: every legacy store that lost nothing is opened with a
    context that expires at its n-th check, for EVERY n up to the number of checks the open makes (engine upgctx); what
    each interrupted attempt leaves is opened again and judged by the interrupted-upgrade rule of CrashTrace.tla."""
    scens = [dict(sc, legacy=dict(sc["legacy"], ctxN=sc["legacy"].get("ctxN", 0) if sc.get("ctxReplay") else 0)) for sc in scens
             if sc.get("legacy") and sc["legacy"].get("lost", 0) == 0]
    if not scens:
        return []
    d = vlib.subdir("upgctx." + label)
    sf = os.path.join(d, "scen.ndjson")
    vlib.write_ndjson(sf, scens)
    files, summ = vlib.run_harness("upgctx", sf, os.path.join(d, "trace"), workers=min(vlib.WORKERS, len(scens)), timeout=1800)
    bad, n1, _ = vlib.validate_traces("CrashTrace", "CrashTrace.cfg", files)
    cases = load_cases(files)
    rep.cov["evaluations"] += n1
    rep.cov["traces_validated_against_impl"] += len(cases)
    rep.cov["upgrades_interrupted_by_an_expiring_context"] = rep.cov.get("upgrades_interrupted_by_an_expiring_context", 0) + summ.get("interrupted_opens", 0)
    rep.cov["legacy_stores_with_every_context_check_as_interruption_point"] = rep.cov.get("legacy_stores_with_every_context_check_as_interruption_point", 0) + len(scens)
    viol, seen = [], set()
    for b in sorted(bad, key=lambda b: (b["t"], b["i"])):
        key = (b["t"], b["i"])
        if key in seen:
            continue
        seen.add(key)
        e = cases.get(key, {})
        rules = sorted({x["rule"] for x in bad if (x["t"], x["i"]) == key})
        sc = scens[b["t"]]
        viol.append(("%s (upgrading open interrupted by a context that expires at its check #%s: %r; then opened again)" % (",".join(rules), e.get("fsop"), e.get("first")),
                     {"engine": "upgctx", "scenario": dict(sc, ctxReplay=True, legacy=dict(sc["legacy"], ctxN=e.get("fsop", 0))), "rules": rules}))
    for c in summ.get("crashed", []):
        viol.append(("the harness dies or hangs while an upgrade interrupted by an expiring context is resumed", {"engine": "upgctx", "scenario": scens[c["t"]], "rules": ["process-crash-or-hang"]}))
    return viol


def crash_clause_c09(rep, rng, thorough):
    """C09, third sentence: an interrupted re-bucketing never leaves a store that opens with fewer keys."""
    # (thorough: all images x all byte prefixes of 60 translations did not finish in 35 minutes; a seeded sample of 600 per scenario does)
    scens, r = scenarios_c09(rng, 30 if thorough else 8, 14, 600 if thorough else 80, thorough)
    rep.cov["transitions"] += r.states
    viol, known, summ = run_crash(rep, scens, "C09")
    for what, obj in viol:
        rep.violation(what, obj)
    translate_protocol_part(rep, "C09")
    rep.cov["crash_failures_attributed_to_known_findings"] = known
    for w, sc in witnesses("C09", "findings"):
        v2, k2, _ = run_crash(rep, [sc], "kf")
        if k2.get(w["id"]) and not v2:
            rep.known.append("%s: %s (witness %s: %d images open successfully with keys missing)" % (w["id"], w["title"], w["witness"], k2[w["id"]]))
        elif v2:
            for what, obj in v2:
                rep.violation("pinned witness of %s shows an unlisted failure: %s" % (w["id"], what), obj)
        else:
            vlib.log("known finding %s no longer reproduces on its witness" % w["id"])


def upgrade_landmarks(ops):
    """the file-system calls of an upgrading open reduced to the protocol steps of Upgrade.tla"""
    import re
    out, nd, ni, pchunk, ichunk = [], 0, 0, False, False
    for k, a, b in ops:
        ev = None
        if k == "rename" and a == "index.free" and b == "index.free.gc":
            ev = ("PToGC", -1)
        elif k == "unlink" and a == "index.free.gc":
            ev = ("PRmGC", -1)
        elif k == "trunc" and re.fullmatch(r"data\.\d+", a) and not pchunk:
            ev, pchunk = ("PChunk", -1), True
        elif k == "rename" and a == "data.info.tmp":
            nd += 1
            ev = ("PHdr" if nd == 1 else "PHdr2", -1)
        elif k == "unlink" and a == "data":
            ev = ("PRmOld", -1)
        elif k == "trunc" and re.fullmatch(r"index\.\d+", a) and not ichunk:
            ev, ichunk = ("IChunk", -1), True
        elif k == "rename" and a == "index.info.tmp":
            ni += 1
            ev = ("IHdr" if ni == 1 else "IHdr2", -1)
        elif k == "unlink" and a == "index":
            ev = ("IRmOld", -1)
        elif k == "create" and re.fullmatch(r"index\.\d+\.tmp", a):
            ev = ("RCopy", int(a.split(".")[1]))
        elif k == "pwrite" and re.fullmatch(r"index\.\d+\.tmp", a):
            ev = ("RWrite", int(a.split(".")[1]))
        elif k == "create" and re.fullmatch(r"index\.\d+\.remapped", a):
            ev = ("RMark", int(a.split(".")[1]))
        elif k == "rename" and re.fullmatch(r"index\.\d+\.tmp", a):
            ev = ("RRename", int(a.split(".")[1]))
        elif k == "unlink" and re.fullmatch(r"index\.\d+\.remapped", a):
            ev = ("IRmMarkers", -1)
        if ev and not (out and out[-1] == ev and ev[0] in ("RWrite", "IRmMarkers")):
            out.append(ev)
    return out


def translate_landmarks(ops):
    """mkdir / rename / rmdir calls of a re-bucketing open reduced to the protocol steps of Translate.tla"""
    import re
    out, phase = [], 0
    for k, a, b in ops:
        if k == "mkdir" and a.startswith("new_index"):
            out.append(("Build", -1))
        elif k == "rename" and re.fullmatch(r"index\.\d+", a) and b.startswith("old_index"):
            out.append(("MoveOldFile", int(a.split(".")[1])))
        elif k == "rename" and a == "index.info" and b.startswith("old_index"):
            out.append(("MoveOldHdr", -1))
        elif k == "rename" and a == "index.buckets" and b.startswith("old_index"):
            out.append(("MoveOldSnap", -1))
        elif k == "rename" and a.startswith("new_index") and re.fullmatch(r"index\.\d+", b):
            out.append(("MoveNewFile", int(b.split(".")[1])))
        elif k == "rename" and a.startswith("new_index") and b == "index.info":
            out.append(("MoveNewHdr", -1))
        elif k == "rename" and a.startswith("new_index") and b == "index.buckets":
            out.append(("MoveNewSnap", -1))
        elif k == "rmdir" and a.startswith("old_index"):
            out.append(("Cleanup", -1))
    return out


def translate_protocol_part(rep, label):
    """Translate.tla: re-bucketing as a crash-restart protocol over directory entries.  TLC verifies SafeOutsideMovePhase and
    FinishedRight and REFUTES NeverSilentlyFewer (C09's third sentence) inside the move phase - the known finding, at model
    level; binding: the mkdir/rename/rmdir calls of every traced real translation must be a behaviour of the model."""
    r = vlib.tlc_must("Translate", "MCTranslate_mc.cfg", timeout=600)
    if r.violated:
        raise vlib.Infra("Translate.tla violates SafeOutsideMovePhase / FinishedRight:\n" + r.out[-2500:])
    rep.add_model(r)
    rk = vlib.tlc("Translate", "MCTranslate_kf.cfg", timeout=600)
    rep.cov["translate_model_refutes_the_third_sentence_inside_the_move_phase"] = bool(rk.rc == 12 and "NeverSilentlyFewer is violated" in rk.out)
    files = sorted(glob.glob(os.path.join(vlib.scratch(), "crash." + label, "trace.fsops.*.json")))
    acc = n = steps = 0
    for f in files:
        o = json.load(open(f))
        lm = translate_landmarks(o["ops"])
        if not lm:
            continue
        tf = f + ".lm.ndjson"
        with open(tf, "w") as g:
            g.write("".join(json.dumps({"a": a, "f": k}) + "\n" for a, k in lm))
        q = vlib.tlc("TranslateTrace", "TranslateTrace.cfg", workers=1, timeout=300, env={"VTRACE": tf}, name="tr%d" % o["t"])
        n += 1
        steps += len(lm)
        acc += 1 if (q.rc == 12 and "NotAccepted is violated" in q.out) else 0
    rep.cov["translations_checked_against_the_protocol_model"] = n
    rep.cov["translations_whose_call_order_the_model_does_not_allow"] = n - acc
    rep.cov["translate_protocol_steps_matched"] = steps
    vlib.log("C09 protocol model: %d traced translations, %d protocol steps, %d runs not a behaviour of Translate.tla" % (n, steps, n - acc))


def upgrade_protocol_part(rep, label):
    """Upgrade.tla: the legacy upgrade as a crash-restart protocol, model-checked (every index file remapped exactly once,
    nothing left behind, the freelist applied once, an uninterrupted open always finishes - with up to 3 crashes anywhere);
    with a lost record TLC reproduces the known finding; binding: the order of the file-system calls of every traced real
    upgrade (from the strace log) must be a behaviour of the model (UpgradeTrace.tla) - a conformance figure."""
    base = {"IdxFiles": "{0, 1}", "NeedRemap": "TRUE", "ResumeRename": "TRUE", "LeftoverRemoved": "TRUE", "MaxCrashes": 3}
    r = vlib.tlc_must("MCUpgrade", "MCUpgrade_mc.cfg", consts=dict(base, Lost="{}"), timeout=600)
    if r.violated:
        raise vlib.Infra("Upgrade.tla violates its invariants - replay the counter-example first:\n" + r.out[-2500:])
    rep.add_model(r)
    r = vlib.tlc_must("MCUpgrade", "MCUpgrade_mc.cfg", consts=dict(base, Lost="{}", NeedRemap="FALSE"), timeout=600)
    if r.violated:
        raise vlib.Infra("Upgrade.tla (no remapping needed) violates its invariants:\n" + r.out[-2500:])
    rep.add_model(r)
    rk = vlib.tlc("MCUpgrade", "MCUpgrade_mc.cfg", consts=dict(base, Lost="{0}"), timeout=600)
    rep.cov["upgrade_model_reproduces_the_known_finding_with_a_lost_record"] = bool(rk.rc == 12 and "CleanWhenFinished is violated" in rk.out)
    files = sorted(glob.glob(os.path.join(vlib.scratch(), "crash." + label, "trace.fsops.*.json")))
    import concurrent.futures as cf

    def one(f):
        o = json.load(open(f))
        lm = upgrade_landmarks(o["ops"])
        tf = f + ".lm.ndjson"
        with open(tf, "w") as g:
            g.write("".join(json.dumps({"a": a, "f": n}) + "\n" for a, n in lm))
        q = vlib.tlc("UpgradeTrace", "UpgradeTrace.cfg", workers=1, timeout=300, env={"VTRACE": tf}, name="up%d" % o["t"])
        return q.rc == 12 and "NotAccepted is violated" in q.out, len(lm)
    acc = n = steps = 0
    with cf.ThreadPoolExecutor(max_workers=8) as ex:
        for ok, k in ex.map(one, files):
            n += 1
            acc += 1 if ok else 0
            steps += k
    rep.cov["upgrade_runs_checked_against_the_protocol_model"] = n
    rep.cov["upgrade_runs_whose_call_order_the_model_does_not_allow"] = n - acc
    rep.cov["upgrade_protocol_steps_matched"] = steps
    vlib.log("C10 protocol model: %d traced upgrades, %d protocol steps, %d runs not a behaviour of Upgrade.tla" % (n, steps, n - acc))


MKEYS = [[1, 7, 7, 0, 9, 0, 3, 3], [1, 7, 7, 0, 9, 0, 3, 4], [2, 7, 7, 0, 9, 0, 3, 3]]


def model_crash_part(rep, rng, thorough):
    """StoreCrash.tla: crash at every stage of a commit (np primary records, ni record lists, freelist) + recovery by
    rescan, model-checked (Durable, NoLiveFreed, Refines afterwards).  Binding: for every history of the model that ends
    in a crash, the history + a final Flush runs in a child under strace, EVERY image of that Flush (all byte prefixes) is
    recovered by the real OpenStore (verdict: CrashTrace/Durable.tla as for all scenarios), and the recovered contents are
    compared with the set of contents the model's crash stages recover (conformance figure, not a verdict)."""
    pl, il, mc = (33, 30, 5) if thorough else (33, 30, 4)
    consts = {"Vals": "{0, 5}", "PriLimit": pl, "IdxLimit": il, "MaxCalls": mc, "WithGC": "FALSE", "LowUses": "{101}", "Deadlines": "{0}", "IDeadlines": "{0}", "CommitOrder": '"pif"', "Faults": '{"crash"}'}
    r0 = vlib.tlc_must("MCStoreCrash", "MCStoreCrash_mc.cfg", consts=consts, timeout=3000)
    if r0.violated:
        raise vlib.Infra("StoreCrash.tla violates Durable / NoLiveFreed / Refines - replay the counter-example first:\n" + r0.out[-2500:])
    rep.add_model(r0)
    # the same invariants with everything switched on: both collectors, primary GC cycles stopped by a time limit, reopen and
    # crash in any order (model-checked only; the histories executed below are those without the collectors)
    full = dict(consts, MaxCalls=6 if thorough else 5, WithGC="TRUE", LowUses="{0, 101}", Deadlines="{0, 1, 2}", IDeadlines="{0, 1, 2}", Faults='{"crash", "reopen"}')
    r1 = vlib.tlc_must("MCStoreCrash", "MCStoreCrash_mc.cfg", consts=full, timeout=3000)
    if r1.violated:
        raise vlib.Infra("StoreCrash.tla (collectors + time limits + crash + reopen) violates its invariants - replay the counter-example first:\n" + r1.out[-2500:])
    rep.add_model(r1)
    g = vlib.tlc_must("MCStoreCrash", "MCStoreCrash_edges.cfg", consts=consts, timeout=3000)
    groups = {}
    for sc in g.printed("SCN"):
        ops = sc["ops"]
        if not ops or ops[-1]["op"] != "crash" or any(o["op"] == "crash" for o in ops[:-1]):
            continue
        key = json.dumps(ops[:-1], sort_keys=True)
        grp = groups.setdefault(key, {"ops": ops[:-1], "out": set()})
        grp["out"].add(tuple(0 if v < 0 else (1 if v == 0 else 2) for v in ops[-1]["rec"]))
    keys = sorted(groups)
    if not thorough and len(keys) > 260:
        # prefer histories whose final commit has something to write
        keys = rng.sample(keys, 260)
    cfg = dict(primary="mh", bits=8, il=il, pl=pl, imm=False, keys=MKEYS, vals=["empty", "b5"])
    scens = []
    for i, k in enumerate(keys):
        ops = [dict(o, v=(1 if o.get("vlen") == 0 else 2)) if o["op"] == "put" else o for o in groups[k]["ops"]] + [{"op": "flush"}]
        scens.append({"cfg": cfg, "ops": ops, "maxImgs": 0, "cont": [], "mode": "", "seed": vlib.seed() * 1000 + i, "onlyOps": [len(ops) - 1], "allTorn": True})
    cases = []
    viol, known, summ = run_crash(rep, scens, "model", collect=cases)
    for what, obj in viol:
        rep.violation(what, obj)
    unpredicted = observed = 0
    seen = {}
    for e in cases:
        if e.get("open") or e.get("panic"):
            continue
        out = groups[keys[e["t"]]]["out"]
        o = tuple(e["obs"])
        observed += 1
        if o not in out:
            unpredicted += 1
        else:
            seen.setdefault(e["t"], set()).add(o)
    rep.cov["mechanism_model_crash_histories"] = len(scens)
    rep.cov["mechanism_model_crash_images_recovered"] = observed
    rep.cov["mechanism_model_recovered_contents_the_model_does_not_predict"] = unpredicted
    rep.cov["mechanism_model_predicted_outcomes"] = sum(len(groups[k]["out"]) for k in keys)
    rep.cov["mechanism_model_predicted_outcomes_observed"] = sum(len(v) for v in seen.values())
    vlib.log("C03 mechanism model: %d crash histories, %d images recovered, %d recovered contents not predicted by StoreCrash.tla, %d of %d predicted outcomes observed" % (
        len(scens), observed, unpredicted, rep.cov["mechanism_model_predicted_outcomes_observed"], rep.cov["mechanism_model_predicted_outcomes"]))


def run(pid):
    rep = vlib.Report(pid)
    rng = random.Random(vlib.seed())
    vlib.build_harness()
    thorough = vlib.tier() == "thorough"
    if pid == "C03":
        # (thorough: all images x all byte prefixes of 120 histories was ~2 M recoveries and did not finish; a seeded sample of
        # 1200 images per history drawn from all call boundaries and all byte prefixes does, and the mechanism-model part
        # below recovers EVERY image of its histories)
        scens, r = scenarios_c03(rng, 40 if thorough else 16, 30 if thorough else 22, 1200 if thorough else 110, thorough)
        rep.cov["states"], rep.cov["transitions"] = max(1, r.distinct), max(1, r.states)
    elif pid == "C09X":
        scens, r = scenarios_c09(rng, 30 if thorough else 12, 14, 600 if thorough else 120, thorough)
        rep.cov["states"], rep.cov["transitions"] = max(1, r.distinct), max(1, r.states)
    else:
        scens = scenarios_c10(rng, 80 if thorough else 16, 0 if thorough else 120, thorough)
        rep.cov["states"] = rep.cov["transitions"] = len(scens)
    vlib.log("%s: %d traced scenarios" % (pid, len(scens)))
    viol, known, summ = run_crash(rep, scens, pid)
    for what, obj in viol:
        rep.violation(what, obj)
    rep.cov["continuation_failures_attributed_to_known_findings"] = known
    rep.cov["samples"] = [scens[0]["ops"][:12] or scens[0].get("legacy")]
    if pid == "C10":
        upgrade_protocol_part(rep, pid)
        # the COMPLETE upgrade (the image after its last file-system call) must also leave the freelist accounting exact
        # (Fsck F7, the rule of C13): the pending freelist of the legacy store was applied, every entry once
        fin = [dict(sc, finalOnly=True, maxImgs=0) for sc in scens]
        v5, k5, _ = run_crash(rep, fin, "C10final", extra_rules="C13")
        for what, obj in v5:
            rep.violation("complete upgrade: " + what, obj)
        rep.cov["complete_upgrades_judged_with_the_freelist_accounting_rule"] = len(fin)
        # interruption by a cancelled context instead of a crash: every context check of the upgrading open
        for what, obj in cancel_clause_c10(rep, scens):
            rep.violation(what, obj)
    if pid == "C03":
        # collector-focused batch: histories that leave unreferenced index files and dead primary records behind, then one
        # index GC cycle with the free-file scan, one primary GC cycle and one index GC cycle without the scan - with EVERY
        # call boundary of those three calls as a crash point (they make few calls, and every one of them matters: header
        # before unlink, mark before truncate, hand-over before marking)
        w = ["put"] * 6 + ["rem"] + ["flush"] * 4
        consts = seqeng.kv_consts(6, w, 18)
        hs, r = seqeng.gen_histories(consts, "sim", num=40 if thorough else 10, seed=vlib.seed() + 31)
        cfgs = seqeng.sweep(rng, 10, primaries=("mh", "mh", "cid"), bits=(8, 9), limits=(30, 30, 70), imm=(False,))
        gsc = []
        for i, h in enumerate(hs):
            ops = h + [{"op": "flush"}, {"op": "idxgc", "scanFree": True, "deadline": 0}, {"op": "prigc", "lowUse": 0, "deadline": 0}, {"op": "flush"},
                       {"op": "idxgc", "scanFree": False, "deadline": 0}]
            n = len(ops)
            gsc.append({"cfg": cfgs[i % len(cfgs)], "ops": ops, "maxImgs": 0, "cont": CONT, "mode": "", "seed": vlib.seed() * 1000 + 500 + i,
                        "onlyOps": [n - 4, n - 3, n - 1], "allTorn": False})
        v3, k3, _ = run_crash(rep, gsc, "gcfocus")
        for what, obj in v3:
            rep.violation(what, obj)
        for k, v in k3.items():
            known[k] = known.get(k, 0) + v
        rep.cov["continuation_failures_attributed_to_known_findings"] = known
        rep.cov["collector_focused_crash_histories"] = len(gsc)
        model_crash_part(rep, rng, thorough)
    # pinned witnesses
    for w, sc in witnesses(pid, "findings"):
        v2, k2, _ = run_crash(rep, [sc], "kf")
        if k2.get(w["id"]) and not v2:
            rep.known.append("%s: %s (witness %s: %d recovered images fail in the continuation)" % (w["id"], w["title"], w["witness"], k2[w["id"]]))
        elif v2:
            for what, obj in v2:
                rep.violation("pinned witness of %s shows an unlisted failure: %s" % (w["id"], what), obj)
        else:
            vlib.log("known finding %s no longer reproduces on its witness" % w["id"])
    for w, sc in witnesses(pid, "fixed"):
        v2, k2, _ = run_crash(rep, [sc], "fx")
        for what, obj in v2:
            rep.violation("witness of a repaired defect fails again: " + what, obj)
    rep.cov["exhaustive"] = False
    rep.cov["distinct_nontrivial"] = rep.cov.get("crash_images", 0)
    rep.cov["rule"] = ("every file-system call boundary of the traced child (strace) and byte prefixes of appended / overwritten regions (all prefixes for writes <= 48 B, record-boundary and seeded cuts for larger ones; "
                       "all prefixes are candidates in the thorough tier); a seeded sample of images per scenario (110 quick, 1200 thorough), and EVERY image of the final commit of every crash history of StoreCrash.tla; each image is opened by the real OpenStore, every key read, then a continuation "
                       "(writes, flush, 2 primary-GC cycles with threshold 0, index GC, reopen by rescan) is executed; distinct = images, non-trivial = all (an image is a distinct on-disk state)")
    if pid == "C10":
        rep.cov["rule"] = ("every file-system call boundary of the traced upgrading open (strace) and byte prefixes of appended / overwritten regions; a seeded sample of 120 images per "
                           "legacy store (all in the thorough tier); each image is opened again by the real OpenStore (the resumed upgrade), every key read and compared with the legacy map, "
                           "legacy files must be gone, then a continuation (writes, flush, GC cycles, reopen by rescan) is executed; the order of the file-system calls of every traced "
                           "upgrade is matched against Upgrade.tla; for every legacy store that lost nothing the upgrading open is also interrupted by a context that expires at its "
                           "n-th check, for EVERY n up to the number of checks the open makes, and what each attempt leaves is opened again and judged by the same rule; "
                           "distinct = images, non-trivial = all")
    rep.assumptions = ["TLC + Json module", "strace reports every traced call of the child in order (the reconstructed final image is asserted byte-identical to the real directory)",
                       "a process crash loses nothing that a completed system call wrote (no fsync modelling); torn writes are prefixes of one write call",
                       "the call in flight at the crash may or may not have taken effect"]
    return rep.finish()


def replay(pid, path):
    rep = vlib.Report(pid, replay=True)
    with open(path) as f:
        obj = json.load(f)
    vlib.build_harness()
    if obj.get("engine") == "upgctx":
        viol, known = cancel_clause_c10(rep, [obj["scenario"]], "replay"), {}
    else:
        viol, known, _ = run_crash(rep, [obj["scenario"]], "replay")
    for what, o in viol:
        rep.violation(what, o)
    print("replay: %d failing images, known-finding images %s" % (len(viol), known))
    return rep.finish()
