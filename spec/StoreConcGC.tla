---------------------------- MODULE StoreConcGC ----------------------------
(* C06.  One key, abstract locations: a foreground call, one commit, one     *)
(* index-GC cycle and one primary-GC cycle (with relocation) interleaved at   *)
(* the granularity of the code's yield points.                                *)
(*                                                                            *)
(* Index side: irec = the bucket's record lists ever flushed (record id ->    *)
(* [loc, st]), bptr = the bucket table entry, pool/curp = the write pools.    *)
(* Primary side: pri = records (loc -> [v, st]) with st in pool/disk/deleted, *)
(* freelist pool (flp), file (flf) and .gc (flg).                             *)
(*                                                                            *)
(* Two design-level defects are part of the model (known findings):           *)
(*  KF-C06-idx-read-after-reap : Index.Get remembers the bucket position      *)
(*     after releasing the read lock (L1); a flush supersedes that record     *)
(*     list and index GC reaps it before L2 reads it  => read error.          *)
(*  KF-C06-stale-primary-loc   : a call holds a primary location (after L2);  *)
(*     the key is overwritten, flushed, and primary GC marks the old record   *)
(*     deleted before the call reads it => the store removes the key's        *)
(*     CURRENT index entry ("bad key") - an acknowledged value is lost.       *)
(* AllowKnown = FALSE keeps both out of the bulk exploration: the collectors' *)
(* destructive steps are disabled while a call holds a stale position.        *)
EXTENDS Integers, Sequences, FiniteSets, TLC

CONSTANTS Ops,          \* subset of {"get", "put", "rem"}: the menu of the single foreground call
          Reloc,        \* allow the relocation steps of primary GC
          AllowKnown,
          MaxRecs       \* bound on records created (state space)

OpMenu == [op : Ops \cap {"put"}, v : {2}] \cup [op : Ops \cap {"get", "rem"}, v : {0}]

VARIABLES pool, curp, bptr, irec, nid,
          pri, flp, flf, flg,
          prog, pc, lv, res,
          fpc, ipc, gpc, grel,
          hist
vars == <<pool, curp, bptr, irec, nid, pri, flp, flf, flg, prog, pc, lv, res, fpc, ipc, gpc, grel, hist>>
View == <<pool, curp, bptr, irec, nid, pri, flp, flf, flg, prog, pc, lv, res, fpc, ipc, gpc, grel>>

NoneL == [has |-> FALSE, loc |-> 0]
SomeL(x) == [has |-> TRUE, loc |-> x]
Cached == IF pool.has THEN pool ELSE curp
DiskLoc == IF bptr = 0 THEN 0 ELSE irec[bptr].loc
EffLoc == IF Cached.has THEN Cached.loc ELSE DiskLoc

\* initial files: the key was written (v=1, loc 1), overwritten (loc 2 ... not yet), flushed:
\* record list 1 names loc 1; everything is on disk.
Init ==
  /\ pool = NoneL /\ curp = NoneL /\ bptr = 1
  /\ irec = << [loc |-> 1, st |-> "live"] >> /\ nid = 2
  /\ pri = << [v |-> 1, st |-> "disk"] >>
  /\ flp = <<>> /\ flf = <<>> /\ flg = [has |-> FALSE, l |-> <<>>]
  /\ prog \in OpMenu
  /\ pc = "L1" /\ lv = [loc |-> 0, rid |-> 0, nl |-> 0] /\ res = <<"none">>
  /\ fpc = "IS" /\ ipc = "scan" /\ gpc = "togc" /\ grel = [old |-> 0, new |-> 0]
  /\ hist = <<>>

Log(th) == hist' = Append(hist, th)
Ret(r) == res' = r /\ pc' = "done"
Same(vs) == UNCHANGED vs

\* ---------------- the foreground call
L1 == /\ pc = "L1" /\ Log("c")
      /\ IF Cached.has THEN lv' = [lv EXCEPT !.loc = Cached.loc] /\ pc' = "W1"
         ELSE lv' = [lv EXCEPT !.rid = bptr] /\ pc' = "L2"
      /\ Same(<<pool, curp, bptr, irec, nid, pri, flp, flf, flg, prog, res, fpc, ipc, gpc, grel>>)
L2 == /\ pc = "L2" /\ Log("c")
      /\ IF lv.rid = 0 THEN lv' = [lv EXCEPT !.loc = 0] /\ pc' = "W1" /\ Same(<<res>>)
         ELSE IF irec[lv.rid].st # "live" THEN Ret(<<"ERROR-IDXREAD">>) /\ Same(<<lv>>)
         ELSE lv' = [lv EXCEPT !.loc = irec[lv.rid].loc] /\ pc' = "W1" /\ Same(<<res>>)
      /\ Same(<<pool, curp, bptr, irec, nid, pri, flp, flf, flg, prog, fpc, ipc, gpc, grel>>)
\* primary read + compare; a deleted record makes the store remove the index entry ("bad key")
W1 == /\ pc = "W1" /\ Log("c")
      /\ LET found == lv.loc # 0
             dead  == found /\ pri[lv.loc].st = "deleted"
             same  == found /\ ~dead
         IN /\ IF dead THEN pool' = SomeL(0) ELSE Same(<<pool>>)
            /\ CASE prog.op = "get" -> Ret(IF same THEN <<"val", pri[lv.loc].v>> ELSE <<"absent">>) /\ Same(<<lv, pri>>)
                 [] prog.op = "rem" -> IF same /\ EffLoc # 0 /\ ~dead
                                       THEN pool' = SomeL(0) /\ pc' = "W3" /\ Same(<<res, lv, pri>>)
                                       ELSE Ret(<<"removed", FALSE>>) /\ Same(<<lv, pri>>)
                 [] prog.op = "put" -> IF same /\ pri[lv.loc].v = prog.v THEN Ret(<<"ok">>) /\ Same(<<lv, pri>>)
                                       ELSE /\ Len(pri) < MaxRecs
                                            /\ pri' = Append(pri, [v |-> prog.v, st |-> "pool"])
                                            /\ lv' = [lv EXCEPT !.nl = Len(pri) + 1, !.rid = IF same THEN 1 ELSE 0]
                                            /\ pc' = "W2" /\ Same(<<res>>)
      /\ Same(<<curp, bptr, irec, nid, flp, flf, flg, prog, fpc, ipc, gpc, grel>>)
W2 == /\ pc = "W2" /\ Log("c")
      /\ IF lv.rid = 0        \* Index.Put: insert unless an entry for the key exists
         THEN (IF EffLoc = 0 THEN pool' = SomeL(lv.nl) ELSE Same(<<pool>>)) /\ Ret(<<"ok">>)
         ELSE IF EffLoc = 0 THEN Ret(<<"ERROR-UPDATE">>) /\ Same(<<pool>>)
              ELSE pool' = SomeL(lv.nl) /\ pc' = "W3" /\ Same(<<res>>)
      /\ Same(<<curp, bptr, irec, nid, pri, flp, flf, flg, prog, lv, fpc, ipc, gpc, grel>>)
W3 == /\ pc = "W3" /\ Log("c")
      /\ flp' = Append(flp, lv.loc)
      /\ Ret(IF prog.op = "put" THEN <<"ok">> ELSE <<"removed", TRUE>>)
      /\ Same(<<pool, curp, bptr, irec, nid, pri, flf, flg, prog, lv, fpc, ipc, gpc, grel>>)

\* ---------------- one commit (primary written with the index swap step for brevity)
IS == /\ fpc = "IS" /\ Log("f")
      /\ pri' = [l \in DOMAIN pri |-> IF pri[l].st = "pool" THEN [pri[l] EXCEPT !.st = "disk"] ELSE pri[l]]
      /\ IF pool.has THEN curp' = pool /\ pool' = NoneL /\ fpc' = "IW" ELSE Same(<<pool, curp>>) /\ fpc' = "FF"
      /\ Same(<<bptr, irec, nid, flp, flf, flg, prog, pc, lv, res, ipc, gpc, grel>>)
IW == /\ fpc = "IW" /\ Log("f") /\ Len(irec) < MaxRecs
      /\ irec' = Append(irec, [loc |-> curp.loc, st |-> "live"]) /\ nid' = nid + 1 /\ fpc' = "BC"
      /\ Same(<<pool, curp, bptr, pri, flp, flf, flg, prog, pc, lv, res, ipc, gpc, grel>>)
BC == /\ fpc = "BC" /\ Log("f")
      /\ bptr' = Len(irec) /\ fpc' = "FF"
      /\ Same(<<pool, curp, irec, nid, pri, flp, flf, flg, prog, pc, lv, res, ipc, gpc, grel>>)
FF == /\ fpc = "FF" /\ Log("f")
      /\ flf' = flf \o flp /\ flp' = <<>> /\ fpc' = "done"
      /\ Same(<<pool, curp, bptr, irec, nid, pri, flg, prog, pc, lv, res, ipc, gpc, grel>>)

\* ---------------- index GC: reap every record list the bucket does not point at
HoldsStalePos == pc = "L2" /\ lv.rid # 0 /\ lv.rid # bptr          \* KF-C06-idx-read-after-reap window
HoldsStaleLoc == pc = "W1" /\ lv.loc # 0 /\ lv.loc # EffLoc        \* KF-C06-stale-primary-loc window
IGc == /\ ipc = "scan" /\ Log("ig")
       /\ (AllowKnown \/ ~HoldsStalePos)
       /\ \E r \in DOMAIN irec : irec[r].st = "live" /\ r # bptr /\ irec' = [irec EXCEPT ![r].st = "deleted"]
       /\ Same(<<pool, curp, bptr, nid, pri, flp, flf, flg, prog, pc, lv, res, fpc, ipc, gpc, grel>>)
IGcEnd == /\ ipc = "scan" /\ Log("ig") /\ ipc' = "done"
          /\ Same(<<pool, curp, bptr, irec, nid, pri, flp, flf, flg, prog, pc, lv, res, fpc, gpc, grel>>)

\* ---------------- primary GC: hand-over (flushed entries only), delete, relocate
GToGC == /\ gpc = "togc" /\ Log("pg")
         /\ flg' = [has |-> TRUE, l |-> flf] /\ flf' = <<>> /\ gpc' = "delete"
         /\ Same(<<pool, curp, bptr, irec, nid, pri, flp, prog, pc, lv, res, fpc, ipc, grel>>)
GDelete == /\ gpc = "delete" /\ Log("pg")
           /\ (AllowKnown \/ ~(HoldsStaleLoc /\ \E i \in DOMAIN flg.l : flg.l[i] = lv.loc))
           /\ pri' = [l \in DOMAIN pri |-> IF (\E i \in DOMAIN flg.l : flg.l[i] = l) /\ pri[l].st = "disk"
                                           THEN [pri[l] EXCEPT !.st = "deleted"] ELSE pri[l]]
           /\ flg' = [has |-> FALSE, l |-> <<>>] /\ gpc' = "reap"
           /\ Same(<<pool, curp, bptr, irec, nid, flp, flf, prog, pc, lv, res, fpc, ipc, grel>>)
GRelPut == /\ Reloc /\ gpc = "reap" /\ Log("pg") /\ Len(pri) < MaxRecs
           /\ \E l \in DOMAIN pri : pri[l].st = "disk"
                /\ pri' = Append(pri, [v |-> pri[l].v, st |-> "pool"])
                /\ grel' = [old |-> l, new |-> Len(pri) + 1]
           /\ gpc' = "relupd"
           /\ Same(<<pool, curp, bptr, irec, nid, flp, flf, flg, prog, pc, lv, res, fpc, ipc>>)
\* Index.UpdateIf: re-point only if the index still names the record being moved
GRelUpd == /\ gpc = "relupd" /\ Log("pg")
           /\ IF EffLoc = grel.old THEN pool' = SomeL(grel.new) /\ flp' = Append(flp, grel.old)
                                   ELSE flp' = Append(flp, grel.new) /\ Same(<<pool>>)
           /\ gpc' = "done"
           /\ Same(<<curp, bptr, irec, nid, pri, flf, flg, prog, pc, lv, res, fpc, ipc, grel>>)
GEnd == /\ gpc = "reap" /\ Log("pg") /\ gpc' = "done"
        /\ Same(<<pool, curp, bptr, irec, nid, pri, flp, flf, flg, prog, pc, lv, res, fpc, ipc, grel>>)

Next == L1 \/ L2 \/ W1 \/ W2 \/ W3 \/ IS \/ IW \/ BC \/ FF \/ IGc \/ IGcEnd \/ GToGC \/ GDelete \/ GRelPut \/ GRelUpd \/ GEnd
Spec == Init /\ [][Next]_vars

\* ------------------------------------------------------------------ C06 on the model
Quiet == pc = "done" /\ fpc = "done" /\ ipc = "done" /\ gpc = "done"
Final == LET l == EffLoc IN IF l # 0 /\ pri[l].st # "deleted" THEN pri[l].v ELSE 0
Expected == CASE prog.op = "get" -> (res = <<"val", 1>> /\ Final = 1)
              [] prog.op = "rem" -> (res = <<"removed", TRUE>> /\ Final = 0)
              [] prog.op = "put" -> (res = <<"ok">> /\ Final = 2)
\* with a single call every linearization gives the same answer
Undisturbed == Quiet => Expected
NoIdxReadError == res # <<"ERROR-IDXREAD">>
NoUpdateError == res # <<"ERROR-UPDATE">>
=======================================================================
