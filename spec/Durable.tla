------------------------------ MODULE Durable ------------------------------
(* C03: what a store may contain after a process crash.                      *)
(*   cur     the map of acknowledged calls (KV.tla)                           *)
(*   dur     the map at the last completed Flush / Close / reopen             *)
(*   since   per key, the values (0 = removal) acknowledged after that point  *)
(* After a crash the next open must succeed and every key must read a value   *)
(* in {dur[k]} \cup since[k] (plus the effect of the call that was in flight, *)
(* which may or may not have happened).                                       *)
EXTENDS Integers, Sequences, FiniteSets

Acked(S, op, k, v, imm) ==   \* effect of an acknowledged call on [cur, dur, since]
  CASE op = "put" /\ ~(imm /\ S.cur[k] # 0) ->
         [S EXCEPT !.cur[k] = v, !.since[k] = @ \cup {v}]
    [] op = "rem" -> [S EXCEPT !.cur[k] = 0, !.since[k] = @ \cup {0}]
    [] op \in {"flush", "reopen"} -> [S EXCEPT !.dur = S.cur, !.since = [x \in DOMAIN S.since |-> {}]]
    [] OTHER -> S

Allowed(S, k, infl) ==
  {S.dur[k]} \cup S.since[k]
  \cup (IF infl.op = "put" /\ infl.k = k THEN {infl.v} ELSE {})
  \cup (IF infl.op = "rem" /\ infl.k = k THEN {0} ELSE {})
=======================================================================
