--------------------------- MODULE MCStoreConc ---------------------------
EXTENDS StoreConc, Json
\* one schedule per transition of the state graph, with the program it belongs to
EmitEdges == [][PrintT(<<"SCN", ToJson([schedule |-> hist', prog |-> prog, init |-> InitPresent, imm |-> Immutable])>>)]_vars
=======================================================================
