--------------------------- MODULE TranslateTrace ---------------------------
(* I->S binding of Translate.tla: the mkdir / rename / rmdir calls of a real   *)
(* re-bucketing open (from the strace log of the child, reduced by the driver  *)
(* to the protocol steps) must be a behaviour of the model, step by step, the  *)
(* per-file steps on the file the model moves next.  Accepted iff the whole    *)
(* trace is consumed and the model has finished (the driver asks TLC to refute *)
(* NotAccepted).  A run that is not accepted is model drift, not a verdict.    *)
EXTENDS Translate, Json, IOUtils

Trace == ndJsonDeserialize(IOEnv.VTRACE)          \* records [a |-> action name, f |-> file number or -1]
TraceOld == {Trace[j].f : j \in {x \in 1..Len(Trace) : Trace[x].a = "MoveOldFile"}}
TraceNew == {Trace[j].f : j \in {x \in 1..Len(Trace) : Trace[x].a = "MoveNewFile"}}

VARIABLE i
tvars == <<vars, i>>
Is(a) == i <= Len(Trace) /\ Trace[i].a = a /\ i' = i + 1
TInit == Init /\ i = 1
TNext == \/ (Is("Build") /\ Build)
         \/ (Is("MoveOldFile") /\ OldHere # {} /\ Trace[i].f = Min(OldHere) /\ MoveOldFile)
         \/ (Is("MoveOldHdr") /\ MoveOldHdr) \/ (Is("MoveOldSnap") /\ MoveOldSnap)
         \/ (Is("MoveNewFile") /\ NewHere # NewFiles /\ Trace[i].f = Min(NewFiles \ NewHere) /\ MoveNewFile)
         \/ (Is("MoveNewHdr") /\ MoveNewHdr) \/ (Is("MoveNewSnap") /\ MoveNewSnap)
         \/ (Is("Cleanup") /\ Cleanup)
TSpec == TInit /\ [][TNext]_tvars
NotAccepted == ~(pc = "done" /\ i = Len(Trace) + 1)
=======================================================================
