SPECIFICATION Spec
CONSTANTS
  Keys <- AllKeys
PROPERTIES EmitEdges
VIEW View
CHECK_DEADLOCK FALSE
