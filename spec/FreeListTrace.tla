-------------------------- MODULE FreeListTrace --------------------------
(* C13 at component level, I->S binding.  Total monitor over traces of     *)
(* schedule replays on a real freelist.FreeList (engine "flist").  Events:   *)
(* "put" (acknowledged Put of entry en), "flush", "togc", "present" (the     *)
(* entries of a .gc file the collector read and then removed), "end" (what   *)
(* is left in the file and in .gc after the final drain; threads that never  *)
(* returned).                                                               *)
(*                                                                          *)
(*   exactly-once: at the end every acknowledged entry was presented        *)
(*   exactly once (or, if the drain failed, is still in the file or .gc     *)
(*   exactly once); nothing is presented that was not put; a presentation   *)
(*   never precedes the Put it belongs to; no call fails; no thread hangs.  *)
EXTENDS TraceLib

VARIABLES l, puts, begun, shown
\* puts = entries whose Put returned; begun = entries whose Put was invoked (in the free-running phase a Put's entry can be
\* flushed, handed over and presented before the writer's own "put" line is written); shown = entries presented so far
vars == <<l, puts, begun, shown>>

Init == l = 1 /\ puts = {} /\ begun = {} /\ shown = <<>> /\ RegInit

Count(x, s) == Cardinality({i \in 1..Len(s) : s[i] = x})

Rules(e) ==
     (IF e.e \in {"put", "flush", "togc", "present", "end"} /\ e.err # "" THEN {"call-failed"} ELSE {})
  \cup (IF e.e = "present" /\ (\E i \in 1..Len(e.ents) : e.ents[i] \notin begun) THEN {"presented-entry-never-put"} ELSE {})
  \cup (IF e.e = "end" /\ Len(e.stuck) > 0 THEN {"thread-never-returned"} ELSE {})
  \cup (IF e.e = "end" /\ Len(e.stuck) = 0
        THEN LET all == shown \o e.file \o e.gc IN
                  (IF \E x \in puts : Count(x, all) = 0 THEN {"entry-lost"} ELSE {})
             \cup (IF \E x \in puts : Count(x, all) > 1 THEN {"entry-recorded-twice"} ELSE {})
             \cup (IF \E i \in 1..Len(all) : all[i] \notin puts THEN {"entry-invented"} ELSE {})
        ELSE {})

Next ==
  /\ l <= Len(Trace)
  /\ LET e == Trace[l] IN
       /\ Flag(e, IF e.e = "reset" THEN {} ELSE Rules(e))
       /\ puts' = (IF e.e = "reset" THEN {} ELSE IF e.e = "put" /\ e.err = "" THEN puts \cup {e.en} ELSE puts)
       /\ begun' = (IF e.e = "reset" THEN {} ELSE IF e.e = "putb" THEN begun \cup {e.en} ELSE begun)
       /\ shown' = (IF e.e = "reset" THEN <<>> ELSE IF e.e = "present" THEN shown \o e.ents ELSE shown)
  /\ Consumed(l)
  /\ l' = l + 1

Spec == Init /\ [][Next]_vars
=======================================================================
