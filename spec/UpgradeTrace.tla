---------------------------- MODULE UpgradeTrace ----------------------------
(* I->S binding of Upgrade.tla: the file-system calls of a real, uninterrupted *)
(* upgrading open (taken from the strace log of the child, reduced by the      *)
(* driver to the calls that are protocol steps) must be a behaviour of the     *)
(* model: every recorded step is matched, in order, by the action of that      *)
(* name (for the per-file steps: on that file); the steps that make no call    *)
(* of their own (PStart, PMark, IStart, IOpen, RSkip, RDone, IFinal, and the   *)
(* removal of markers when there are none) may                                *)
(* happen in between.  The trace is accepted iff some behaviour consumes it    *)
(* completely and ends in pc = "done" - the driver asks TLC to refute          *)
(* NotAccepted and counts a refutation as acceptance.  A run that is not       *)
(* accepted is model drift (a conformance figure), not a property verdict.     *)
EXTENDS Upgrade, Json, IOUtils

Trace == ndJsonDeserialize(IOEnv.VTRACE)          \* records [a |-> action name, f |-> file number or -1]
TraceIdxFiles == {Trace[j].f : j \in {x \in 1..Len(Trace) : Trace[x].a = "RCopy"}}
TraceNeedRemap == TraceIdxFiles # {}

VARIABLE i
tvars == <<vars, i>>

Is(a, f) == i <= Len(Trace) /\ Trace[i].a = a /\ Trace[i].f = f /\ i' = i + 1
Silent == (PStart \/ PMark \/ IStart \/ IOpen \/ RDone \/ IFinal \/ (marker = {} /\ IRmMarkers) \/ \E f \in IdxFiles : RSkip(f)) /\ UNCHANGED i

TInit == Init /\ i = 1
TNext == \/ Silent
         \/ (Is("PToGC", -1) /\ PToGC) \/ (Is("PRmGC", -1) /\ PRmGC) \/ (Is("PChunk", -1) /\ PChunk)
         \/ (Is("PHdr", -1) /\ PHdr) \/ (Is("PRmOld", -1) /\ PRmOld) \/ (Is("PHdr2", -1) /\ PHdr2)
         \/ (Is("IChunk", -1) /\ IChunk) \/ (Is("IHdr", -1) /\ IHdr) \/ (Is("IRmOld", -1) /\ IRmOld)
         \/ (\E f \in IdxFiles : (Is("RCopy", f) /\ RCopy(f)) \/ (Is("RWrite", f) /\ RWrite(f))
                                  \/ (Is("RMark", f) /\ RMark(f)) \/ (Is("RRename", f) /\ RRename(f)))
         \/ (Is("IHdr2", -1) /\ IHdr2) \/ (Is("IRmMarkers", -1) /\ IRmMarkers)
TSpec == TInit /\ [][TNext]_tvars

NotAccepted == ~(pc = "done" /\ i = Len(Trace) + 1)
=======================================================================
