SPECIFICATION Spec
INVARIANTS RemappedOnce NeverGarbage NothingLeft FreelistApplied
PROPERTIES Completes
VIEW View
CHECK_DEADLOCK FALSE
