SPECIFICATION Spec
INVARIANTS RemappedOnce NeverGarbage NothingLeft FreelistApplied CleanWhenFinished
PROPERTIES Completes
VIEW View
CHECK_DEADLOCK FALSE
