--------------------------- MODULE FlushRate ---------------------------
(* C12.  The back-pressure protocol of store.go: Store.flushTick (writer   *)
(* side), Store.run / Store.Flush (flusher side), and an explicit caller of *)
(* Flush.  One action per critical section; the names in comments are the   *)
(* yield points of the code (build tag verif) that delimit them.            *)
(*                                                                          *)
(* NotifyWhenIdle = FALSE is the code as delivered: Flush returned early    *)
(* when there was no outstanding work WITHOUT closing the flush notice.     *)
(* A flush that completes between a writer's decision to wait and its       *)
(* registration then leaves the writer waiting for ever (TLC finds the      *)
(* lasso).  NotifyWhenIdle = TRUE is the repaired code.                     *)
EXTENDS Integers, Sequences, FiniteSets, TLC

CONSTANTS Writers,          \* e.g. {"w1"} or {"w1", "w2"}
          Explicit,         \* TRUE: a thread "x" calls Flush directly, once
          NotifyWhenIdle,
          MaxTicks,         \* bound on ticker firings (state space)
          Record            \* TRUE: keep the schedule in hist (scenario export); FALSE for liveness checking

VARIABLES wpc,       \* writer -> "idle" | "measure" | "decided" | "registered" | "signaled" | "done"
          wch,       \* writer -> notice channel id it waits on (0 = none)
          work,      \* outstanding work (number of unflushed writes)
          notice,    \* current flushNotice channel id (0 = nil)
          closed,    \* set of closed channel ids
          nextId,
          flushNow,  \* 0/1: the buffered signal channel
          fpc,       \* flusher goroutine: "select" | "stamped" | "checked" | "committed"
          xpc,       \* explicit caller:   "idle" | "stamped" | "checked" | "committed" | "done"
          ticks,
          hist       \* the schedule: sequence of <<thread, step>>

vars == <<wpc, wch, work, notice, closed, nextId, flushNow, fpc, xpc, ticks, hist>>
View == <<wpc, wch, work, notice, closed, nextId, flushNow, fpc, xpc, ticks>>

Init ==
  /\ wpc = [w \in Writers |-> "idle"]
  /\ wch = [w \in Writers |-> 0]
  /\ work = 0 /\ notice = 0 /\ closed = {} /\ nextId = 1 /\ flushNow = 0
  /\ fpc = "select"
  /\ xpc = IF Explicit THEN "idle" ELSE "done"
  /\ ticks = 0
  /\ hist = <<>>

Sched(th, step) == hist' = (IF Record THEN Append(hist, <<th, step>>) ELSE hist)

\* ---- writer: Put/Remove up to flushTick, then flushTick's sections
\* start .. tick.afterRate : data stored, rate read
WPut(w) ==
  /\ wpc[w] = "idle"
  /\ work' = work + 1
  /\ wpc' = [wpc EXCEPT ![w] = "measure"]
  /\ Sched(w, "WPut")
  /\ UNCHANGED <<wch, notice, closed, nextId, flushNow, fpc, xpc, ticks>>

\* tick.afterRate .. tick.decided | return : measure outstanding work, decide
WMeasure(w) ==
  /\ wpc[w] = "measure"
  /\ wpc' = [wpc EXCEPT ![w] = IF work > 0 THEN "decided" ELSE "done"]
  /\ Sched(w, "WMeasure")
  /\ UNCHANGED <<wch, work, notice, closed, nextId, flushNow, fpc, xpc, ticks>>

\* tick.decided .. tick.registered : get or create the notice (under rateLk)
WRegister(w) ==
  /\ wpc[w] = "decided"
  /\ IF notice = 0
     THEN /\ notice' = nextId
          /\ nextId' = nextId + 1
          /\ wch' = [wch EXCEPT ![w] = nextId]
     ELSE /\ wch' = [wch EXCEPT ![w] = notice]
          /\ UNCHANGED <<notice, nextId>>
  /\ wpc' = [wpc EXCEPT ![w] = "registered"]
  /\ Sched(w, "WRegister")
  /\ UNCHANGED <<work, closed, flushNow, fpc, xpc, ticks>>

\* tick.registered .. tick.signaled : non-blocking send on flushNow
WSignal(w) ==
  /\ wpc[w] = "registered"
  /\ flushNow' = 1
  /\ wpc' = [wpc EXCEPT ![w] = "signaled"]
  /\ Sched(w, "WSignal")
  /\ UNCHANGED <<wch, work, notice, closed, nextId, fpc, xpc, ticks>>

\* tick.signaled .. tick.released .. return : <-flushNotice
WWake(w) ==
  /\ wpc[w] = "signaled"
  /\ wch[w] \in closed
  /\ wpc' = [wpc EXCEPT ![w] = "done"]
  /\ Sched(w, "WWake")
  /\ UNCHANGED <<wch, work, notice, closed, nextId, flushNow, fpc, xpc, ticks>>

\* ---- the sections of Flush, shared by the flusher goroutine and the explicit caller
Notify == IF notice # 0 THEN closed' = closed \cup {notice} /\ notice' = 0
                        ELSE UNCHANGED <<closed, notice>>

\* ---- flusher goroutine (Store.run)
FTick ==          \* the ticker: non-blocking send on flushNow
  /\ fpc = "select"
  /\ ticks < MaxTicks
  /\ ticks' = ticks + 1
  /\ flushNow' = 1
  /\ Sched("f", "FTick")
  /\ UNCHANGED <<wpc, wch, work, notice, closed, nextId, fpc, xpc>>

FTake ==          \* receive from flushNow, call Flush; .. flush.stamped
  /\ fpc = "select"
  /\ flushNow = 1
  /\ flushNow' = 0
  /\ fpc' = "stamped"
  /\ Sched("f", "FTake")
  /\ UNCHANGED <<wpc, wch, work, notice, closed, nextId, xpc, ticks>>

FCheck ==         \* flush.stamped .. flush.checked | return : outstanding work?
  /\ fpc = "stamped"
  /\ IF work = 0
     THEN /\ fpc' = "select"
          /\ (IF NotifyWhenIdle THEN Notify ELSE UNCHANGED <<closed, notice>>)
     ELSE /\ fpc' = "checked"
          /\ UNCHANGED <<closed, notice>>
  /\ Sched("f", "FCheck")
  /\ UNCHANGED <<wpc, wch, work, nextId, flushNow, xpc, ticks>>

FCommit ==        \* flush.checked .. flush.committed : commit (pool swaps and writes)
  /\ fpc = "checked"
  /\ work' = 0
  /\ fpc' = "committed"
  /\ Sched("f", "FCommit")
  /\ UNCHANGED <<wpc, wch, notice, closed, nextId, flushNow, xpc, ticks>>

FNotify ==        \* flush.committed .. return : close the notice (under rateLk)
  /\ fpc = "committed"
  /\ Notify
  /\ fpc' = "select"
  /\ Sched("f", "FNotify")
  /\ UNCHANGED <<wpc, wch, work, nextId, flushNow, xpc, ticks>>

\* ---- explicit Flush caller
XStart ==
  /\ xpc = "idle" /\ xpc' = "stamped" /\ Sched("x", "XStart")
  /\ UNCHANGED <<wpc, wch, work, notice, closed, nextId, flushNow, fpc, ticks>>
XCheck ==
  /\ xpc = "stamped"
  /\ IF work = 0
     THEN /\ xpc' = "done"
          /\ (IF NotifyWhenIdle THEN Notify ELSE UNCHANGED <<closed, notice>>)
     ELSE /\ xpc' = "checked"
          /\ UNCHANGED <<closed, notice>>
  /\ Sched("x", "XCheck")
  /\ UNCHANGED <<wpc, wch, work, nextId, flushNow, fpc, ticks>>
XCommit ==
  /\ xpc = "checked" /\ work' = 0 /\ xpc' = "committed" /\ Sched("x", "XCommit")
  /\ UNCHANGED <<wpc, wch, notice, closed, nextId, flushNow, fpc, ticks>>
XNotify ==
  /\ xpc = "committed" /\ Notify /\ xpc' = "done" /\ Sched("x", "XNotify")
  /\ UNCHANGED <<wpc, wch, work, nextId, flushNow, fpc, ticks>>

Writer(w) == WPut(w) \/ WMeasure(w) \/ WRegister(w) \/ WSignal(w) \/ WWake(w)
Flusher   == FTick \/ FTake \/ FCheck \/ FCommit \/ FNotify
Caller    == XStart \/ XCheck \/ XCommit \/ XNotify
Next == (\E w \in Writers : Writer(w)) \/ Flusher \/ Caller

\* liveness is checked with an unbounded ticker (MaxTicks large enough not to bind is
\* not expressible; the liveness config uses FTickL below instead of FTick)
FTickL ==
  /\ fpc = "select" /\ flushNow' = 1 /\ UNCHANGED <<wpc, wch, work, notice, closed, nextId, fpc, xpc, ticks, hist>>
NextL == (\E w \in Writers : Writer(w)) \/ FTickL \/ FTake \/ FCheck \/ FCommit \/ FNotify \/ Caller
varsL == <<wpc, wch, work, notice, closed, nextId, flushNow, fpc, xpc, ticks>>

Spec == Init /\ [][Next]_vars
\* "as long as flushes keep succeeding": the flusher's steps are weakly fair, the ticker fires
\* again and again, writers that can move do move
SpecL == /\ Init /\ [][NextL]_vars
         /\ WF_varsL(FTake) /\ WF_varsL(FCheck) /\ WF_varsL(FCommit) /\ WF_varsL(FNotify) /\ SF_varsL(FTickL)
         /\ \A w \in Writers : WF_varsL(WWake(w)) /\ WF_varsL(WRegister(w)) /\ WF_varsL(WSignal(w)) /\ WF_varsL(WMeasure(w))

\* ------------------------------------------------------------------ C12
\* no caller waits for ever
NoLostWakeup == \A w \in Writers : (wpc[w] = "signaled") ~> (wpc[w] = "done")
\* a waiting writer is only released through a channel that a flush closed after the
\* writer obtained it (channels are never reused)
ReleasedByLaterFlush == \A w \in Writers : wch[w] # 0 => wch[w] < nextId
TypeOK == /\ flushNow \in {0, 1} /\ work >= 0
          /\ \A w \in Writers : wpc[w] \in {"idle", "measure", "decided", "registered", "signaled", "done"}
=======================================================================
