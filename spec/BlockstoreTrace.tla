------------------------ MODULE BlockstoreTrace ------------------------
(* C15, I->S binding.  Total monitor over traces recorded from the real    *)
(* HashedBlockstore.  The ghost is the blockstore contract itself: a map   *)
(* multihash -> data id, and the hash-on-read flag; every logged outcome   *)
(* and every post-call probe (Has/GetSize of each multihash through a live *)
(* context) must be what the contract says.                                *)
EXTENDS TraceLib

VARIABLES l, st, hor, sizes
vars == <<l, st, hor, sizes>>

Init == l = 1 /\ st = <<>> /\ hor = FALSE /\ sizes = <<>> /\ RegInit

Mh(c) == <<c.fn, c.d>>
Lookup(s, m) == IF m \in DOMAIN s THEN s[m] ELSE "none"
Store(s, m, d) == [x \in DOMAIN s \cup {m} |-> IF x = m THEN d ELSE s[x]]
PutEff(s, c, d) == IF Lookup(s, Mh(c)) = "none" THEN Store(s, Mh(c), d) ELSE s

ProbeOK(p, s, h) ==
  LET v == Lookup(s, <<p.fn, p.d>>) IN
  IF v = "none" THEN ~p.has /\ p.herr = "ok" /\ p.serr = "notfound" /\ p.gerr = "notfound"
  ELSE /\ p.has /\ p.herr = "ok" /\ p.serr = "ok" /\ p.size = sizes[v]
       /\ IF h /\ v # p.d THEN p.gerr = "wronghash" ELSE p.gerr = "ok" /\ p.gd = v

Rules(e, s2, h2) ==
  LET cur == Lookup(st, Mh(e.c)) IN
     (IF \E i \in 1..Len(e.probe) : ~ProbeOK(e.probe[i], s2, h2) THEN {"contents-after-call"} ELSE {})
  \cup (IF e.e \in {"put", "putmany", "delete"} /\ e.r # (IF e.x THEN "ctx" ELSE "ok") THEN {e.e \o "-result"} ELSE {})
  \cup (IF e.e = "get" /\ e.x /\ e.r # "ctx" THEN {"cancelled-get"} ELSE {})
  \cup (IF e.e = "get" /\ ~e.x /\ cur = "none" /\ e.r # "notfound" THEN {"get-notfound"} ELSE {})
  \cup (IF e.e = "get" /\ ~e.x /\ cur # "none" /\ hor /\ cur # e.c.d /\ e.r # "wronghash" THEN {"hash-on-read-enabled"} ELSE {})
  \cup (IF e.e = "get" /\ ~e.x /\ cur # "none" /\ (~hor \/ cur = e.c.d) /\ ~(e.r = "ok" /\ e.d = cur /\ e.cideq)
        THEN {IF ~hor /\ e.r = "wronghash" THEN "hash-on-read-disabled" ELSE "get-result"} ELSE {})
  \cup (IF e.e = "has" /\ (IF e.x THEN e.r # "ctx" ELSE ~(e.r = "ok" /\ e.has = (cur # "none"))) THEN {"has-result"} ELSE {})
  \cup (IF e.e = "size" /\ (IF e.x THEN e.r # "ctx"
                            ELSE IF cur = "none" THEN e.r # "notfound"
                            ELSE ~(e.r = "ok" /\ e.size = sizes[cur])) THEN {"getsize-result"} ELSE {})

Next ==
  /\ l <= Len(Trace)
  /\ LET e == Trace[l] IN
       IF e.e = "reset"
       THEN /\ st' = <<>>
            /\ hor' = FALSE
            /\ sizes' = e.sizes
       ELSE LET s2 == IF e.x THEN st
                      ELSE IF e.e = "put" THEN PutEff(st, e.c, e.din)
                      ELSE IF e.e = "putmany" THEN PutEff(PutEff(st, e.c, e.din), e.c2, e.d2in)
                      ELSE IF e.e = "delete" THEN Store(st, Mh(e.c), "none")
                      ELSE st
                h2 == IF e.e = "hashonread" THEN e.b ELSE hor
            IN /\ Flag(e, Rules(e, s2, h2))
               /\ st' = s2
               /\ hor' = h2
               /\ UNCHANGED sizes
  /\ Consumed(l)
  /\ l' = l + 1

Spec == Init /\ [][Next]_vars
=======================================================================
