--------------------------- MODULE FileCache ---------------------------
(* C14.  Transcription of store/filecache/filecache.go.                    *)
(*                                                                          *)
(* Fixed = TRUE  : the code as it stands in /repo (after the fix: commits   *)
(*                 for the two defects below).                              *)
(* Fixed = FALSE : the code as delivered: (a) Close looked the handle up by *)
(*                 NAME only, so closing a handle opened while capacity was *)
(*                 0 decremented another, cached handle of the same name;   *)
(*                 (b) SetCacheSize(smaller, non-zero) dereferenced a nil   *)
(*                 list before the first Open / after Clear.                *)
(* Handles are numbered in order of creation (the harness numbers distinct  *)
(* *os.File values the same way).                                           *)
EXTENDS Integers, Sequences, FiniteSets, TLC

CONSTANTS Names, Caps, MaxHandles, MaxOps, Fixed

VARIABLES cap,       \* capacity (0 = pass-through)
          order,     \* LRU list of cached names, front = most recent
          hasList,   \* FALSE while c.ll / c.cache are nil
          ent,       \* cached name -> [h, refs]
          removed,   \* evicted-but-referenced handle -> remaining refs
          hname,     \* handle -> name
          status,    \* handle -> "unused" | "open" | "closed"
          lent,      \* ghost: outstanding Opens per handle
          closes,    \* ghost: number of os.File.Close calls per handle
          nh, nops, panicked, lastErr,
          hist

vars == <<cap, order, hasList, ent, removed, hname, status, lent, closes, nh, nops, panicked, lastErr, hist>>
View == <<cap, order, hasList, ent, removed, hname, status, lent, closes, nh, nops, panicked, lastErr>>
H == 1..MaxHandles

Restrict(f, S) == [x \in S |-> f[x]]
RemoveName(seq, n) == SelectSeq(seq, LAMBDA x : x # n)

\* removeElement
RemoveElem(n, o, e, r, st, cl) ==
  LET h    == e[n].h
      refs == e[n].refs
      o2   == RemoveName(o, n)
      e2   == Restrict(e, DOMAIN e \ {n})
  IN IF refs = 0
     THEN [o |-> o2, e |-> e2, r |-> r, st |-> [st EXCEPT ![h] = "closed"], cl |-> [cl EXCEPT ![h] = @ + 1]]
     ELSE [o |-> o2, e |-> e2, r |-> [x \in DOMAIN r \cup {h} |-> IF x = h THEN refs ELSE r[x]], st |-> st, cl |-> cl]

RECURSIVE RemoveAll(_, _, _, _, _, _)
RemoveAll(ns, o, e, r, st, cl) ==
  IF ns = {} THEN [o |-> o, e |-> e, r |-> r, st |-> st, cl |-> cl]
  ELSE LET n  == CHOOSE x \in ns : TRUE
           x1 == RemoveElem(n, o, e, r, st, cl)
       IN RemoveAll(ns \ {n}, x1.o, x1.e, x1.r, x1.st, x1.cl)

RECURSIVE RemoveOldestK(_, _, _, _, _, _)
RemoveOldestK(k, o, e, r, st, cl) ==
  IF k = 0 \/ o = <<>> THEN [o |-> o, e |-> e, r |-> r, st |-> st, cl |-> cl]
  ELSE LET x1 == RemoveElem(o[Len(o)], o, e, r, st, cl)
       IN RemoveOldestK(k - 1, x1.o, x1.e, x1.r, x1.st, x1.cl)

Init ==
  /\ cap \in Caps
  /\ order = <<>>
  /\ hasList = FALSE
  /\ ent = <<>>
  /\ removed = <<>>
  /\ hname = [h \in H |-> "none"]
  /\ status = [h \in H |-> "unused"]
  /\ lent = [h \in H |-> 0]
  /\ closes = [h \in H |-> 0]
  /\ nh = 0
  /\ nops = 0
  /\ panicked = FALSE
  /\ lastErr = FALSE
  /\ hist = << [op |-> "new", c |-> cap] >>

Count(rec) ==
  /\ nops < MaxOps
  /\ ~panicked
  /\ nops' = nops + 1
  /\ hist' = Append(hist, rec)

Open(n) ==
  /\ Count([op |-> "open", n |-> n])
  /\ IF cap = 0
     THEN /\ nh < MaxHandles
          /\ nh' = nh + 1
          /\ hname' = [hname EXCEPT ![nh + 1] = n]
          /\ status' = [status EXCEPT ![nh + 1] = "open"]
          /\ lent' = [lent EXCEPT ![nh + 1] = 1]
          /\ UNCHANGED <<cap, order, hasList, ent, removed, closes, panicked, lastErr>>
     ELSE IF n \in DOMAIN ent
     THEN /\ order' = <<n>> \o RemoveName(order, n)
          /\ ent' = [ent EXCEPT ![n].refs = @ + 1]
          /\ lent' = [lent EXCEPT ![ent[n].h] = @ + 1]
          /\ hasList' = TRUE
          /\ UNCHANGED <<cap, removed, hname, status, closes, nh, panicked, lastErr>>
     ELSE /\ nh < MaxHandles
          /\ nh' = nh + 1
          /\ LET h   == nh + 1
                 o1  == <<n>> \o order
                 e1  == [x \in DOMAIN ent \cup {n} |-> IF x = n THEN [h |-> h, refs |-> 1] ELSE ent[x]]
                 st1 == [status EXCEPT ![h] = "open"]
                 x   == IF Len(o1) > cap
                        THEN RemoveElem(o1[Len(o1)], o1, e1, removed, st1, closes)
                        ELSE [o |-> o1, e |-> e1, r |-> removed, st |-> st1, cl |-> closes]
             IN /\ order' = x.o
                /\ ent' = x.e
                /\ removed' = x.r
                /\ status' = x.st
                /\ closes' = x.cl
                /\ hname' = [hname EXCEPT ![h] = n]
                /\ lent' = [lent EXCEPT ![h] = 1]
          /\ hasList' = TRUE
          /\ UNCHANGED <<cap, panicked, lastErr>>

\* the caller closes a handle it holds
Close(h) ==
  /\ lent[h] > 0
  /\ Count([op |-> "close", h |-> h])
  /\ lent' = [lent EXCEPT ![h] = @ - 1]
  /\ LET n == hname[h] IN
     IF h \in DOMAIN removed
     THEN IF removed[h] = 1
          THEN /\ removed' = Restrict(removed, DOMAIN removed \ {h})
               /\ status' = [status EXCEPT ![h] = "closed"]
               /\ closes' = [closes EXCEPT ![h] = @ + 1]
               /\ UNCHANGED <<ent, lastErr>>
          ELSE /\ removed' = [removed EXCEPT ![h] = @ - 1]
               /\ UNCHANGED <<status, closes, ent, lastErr>>
     ELSE IF n \in DOMAIN ent /\ (~Fixed \/ ent[n].h = h)
     THEN IF ent[n].refs = 0
          THEN /\ lastErr' = TRUE
               /\ UNCHANGED <<removed, status, closes, ent>>
          ELSE /\ ent' = [ent EXCEPT ![n].refs = @ - 1]
               /\ UNCHANGED <<removed, status, closes, lastErr>>
     ELSE /\ status' = [status EXCEPT ![h] = "closed"]
          /\ closes' = [closes EXCEPT ![h] = @ + 1]
          /\ UNCHANGED <<removed, ent, lastErr>>
  /\ UNCHANGED <<cap, order, hasList, hname, nh, panicked>>

Remove(n) ==
  /\ Count([op |-> "remove", n |-> n])
  /\ IF n \in DOMAIN ent
     THEN LET x == RemoveElem(n, order, ent, removed, status, closes) IN
          /\ order' = x.o
          /\ ent' = x.e
          /\ removed' = x.r
          /\ status' = x.st
          /\ closes' = x.cl
     ELSE UNCHANGED <<order, ent, removed, status, closes>>
  /\ UNCHANGED <<cap, hasList, hname, lent, nh, panicked, lastErr>>

Clear ==
  /\ Count([op |-> "clear"])
  /\ LET x == RemoveAll(DOMAIN ent, order, ent, removed, status, closes) IN
     /\ order' = x.o
     /\ ent' = x.e
     /\ removed' = x.r
     /\ status' = x.st
     /\ closes' = x.cl
  /\ hasList' = FALSE
  /\ UNCHANGED <<cap, hname, lent, nh, panicked, lastErr>>

SetCacheSize(c) ==
  /\ Count([op |-> "setsize", c |-> c])
  /\ IF c < cap
     THEN IF c = 0
          THEN /\ LET x == RemoveAll(DOMAIN ent, order, ent, removed, status, closes) IN
                  /\ order' = x.o
                  /\ ent' = x.e
                  /\ removed' = x.r
                  /\ status' = x.st
                  /\ closes' = x.cl
               /\ hasList' = FALSE
               /\ UNCHANGED panicked
          ELSE IF ~hasList /\ ~Fixed
               THEN /\ panicked' = TRUE      \* c.ll.Back() on a nil list
                    /\ UNCHANGED <<order, ent, removed, status, closes, hasList>>
               ELSE LET k == cap - c       \* evicts old-new entries whatever the occupancy
                        x == RemoveOldestK(k, order, ent, removed, status, closes)
                    IN /\ order' = x.o
                       /\ ent' = x.e
                       /\ removed' = x.r
                       /\ status' = x.st
                       /\ closes' = x.cl
                       /\ UNCHANGED <<hasList, panicked>>
     ELSE UNCHANGED <<order, ent, removed, status, closes, hasList, panicked>>
  /\ cap' = c
  /\ UNCHANGED <<hname, lent, nh, lastErr>>

Next == \/ \E n \in Names : Open(n) \/ Remove(n)
        \/ \E h \in H : Close(h)
        \/ Clear
        \/ \E c \in Caps : SetCacheSize(c)

Spec == Init /\ [][Next]_vars

\* ------------------------------------------------------------------ C14
IsCached(h)    == \E n \in DOMAIN ent : ent[n].h = h
LentOpen       == \A h \in H : lent[h] > 0 => status[h] = "open"
ClosedOnce     == \A h \in H : closes[h] <= 1
ReleasedClosed == \A h \in H : (status[h] # "unused" /\ lent[h] = 0 /\ ~IsCached(h)) => (status[h] = "closed" /\ closes[h] = 1)
RefsOK         == (\A n \in DOMAIN ent : ent[n].refs >= 0) /\ (\A h \in DOMAIN removed : removed[h] >= 1)
Bound          == Cardinality({h \in H : status[h] = "open"}) <= cap + Cardinality({h \in H : lent[h] > 0})
NoPanic        == ~panicked
NoSpuriousErr  == ~lastErr
=======================================================================
