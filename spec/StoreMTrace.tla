---------------------------- MODULE StoreMTrace ----------------------------
(* I->S binding of the MECHANISM model: a recorded history of the real       *)
(* store (put / remove / flush over the keys of MCStore, engine "seq" with    *)
(* projections) is replayed through the actions of Store.tla; the order in    *)
(* which Index.Flush wrote the dirty buckets (Go map order) is bound from the *)
(* projection; after every flush the model's files are compared with the      *)
(* projection of the REAL files, byte position by byte position:              *)
(*   index files  : per record its offset, bucket tag, entries (prefix,       *)
(*                  primary position, size)                                   *)
(*   primary files: per record its offset, key, value length                  *)
(*   bucket table, freelist file.                                             *)
(* A difference is "model drift": it is reported as rule M-* and counted by   *)
(* the driver as the model-conformance figure - it is NOT a property verdict  *)
(* (DESIGN.md 2.1).                                                           *)
EXTENDS MCStoreCrash, TraceLib

VARIABLE l
tvars == <<cvars, l>>

KeyOfNo(n) == IF n = 1 THEN K1 ELSE IF n = 2 THEN K2 ELSE K3

\* ---- the model's files in the shape of the projection
RECURSIVE Sum(_, _)
Sum(f, n) == IF n = 0 THEN 0 ELSE f[n] + Sum(f, n - 1)
ModelIdx == [i \in 1..Len(ifiles) |->
               LET recs == ifiles[i]  offs == IOffsets(recs, 1, 0) IN
               [n |-> ifirst + i - 1,
                recs |-> [j \in 1..Len(recs) |-> [off |-> offs[j], size |-> recs[j].size, del |-> recs[j].del,
                                        b |-> IF recs[j].del THEN -1 ELSE recs[j].b,
                                        ents |-> [x \in 1..Len(recs[j].ents) |-> [p |-> recs[j].ents[x].p, off |-> recs[j].ents[x].loc.off, sz |-> recs[j].ents[x].loc.sz]]]]]]
ModelPri == [i \in 1..Len(pfiles) |->
               LET recs == pfiles[i]  offs == POffsets(recs, 1, 0) IN
               [n |-> pfirst + i - 1,
                recs |-> [j \in 1..Len(recs) |-> [off |-> offs[j], size |-> recs[j].size, del |-> recs[j].del,
                                                  dig |-> IF recs[j].del THEN <<>> ELSE recs[j].k,
                                                  vlen |-> IF recs[j].del THEN -1 ELSE recs[j].v]]]]
RealIdx(P) == [i \in 1..Len(P.if) |->
                 [n |-> P.if[i].n,
                  recs |-> [j \in 1..Len(P.if[i].recs) |->
                     [off |-> P.if[i].recs[j].off, size |-> P.if[i].recs[j].size, del |-> P.if[i].recs[j].del, b |-> P.if[i].recs[j].b,
                      ents |-> [x \in 1..Len(P.if[i].recs[j].ents) |-> [p |-> P.if[i].recs[j].ents[x].p, off |-> P.if[i].recs[j].ents[x].off, sz |-> P.if[i].recs[j].ents[x].sz]]]]]]
\* (records the reader found only at a position some index entry names - the bytes of a record subsumed by a merged span -
\* are not part of the file as a sequence of records)
Walked(recs) == SelectSeq(recs, LAMBDA r : ~r.direct)
RealPri(P) == [i \in 1..Len(P.pf) |->
                 [n |-> P.pf[i].n,
                  recs |-> [j \in 1..Len(Walked(P.pf[i].recs)) |->
                              LET r == Walked(P.pf[i].recs)[j] IN
                              [off |-> r.off, size |-> r.size, del |-> r.del, dig |-> r.dig, vlen |-> r.vlen]]]]
ModelBk == {<<b, bk[b]>> : b \in {x \in Buckets : bk[x] # 0}}
RealBk(e) == {<<e.bk[i][1], e.bk[i][2]>> : i \in 1..Len(e.bk)}
ModelFl == [i \in 1..Len(flfile) |-> <<flfile[i].off, flfile[i].sz>>]
ModelGc == [i \in 1..Len(flgc.l) |-> <<flgc.l[i].off, flgc.l[i].sz>>]

\* buckets of the records the real flush appended, in file order
\* the records a flush appended = the records of the real files that lie behind the model's current end
\* (file number, offset) - robust against GC having merged or removed older records
RealNew(P) == LET cur == ifirst + Len(ifiles) - 1
                  per == [i \in 1..Len(P.if) |->
                            SelectSeq([j \in 1..Len(P.if[i].recs) |-> [n |-> P.if[i].n, off |-> P.if[i].recs[j].off, b |-> P.if[i].recs[j].b]],
                                      LAMBDA r : r.n > cur \/ (r.n = cur /\ r.off >= ilen))]
              IN FoldLeft(LAMBDA acc, s : acc \o s, <<>>, per)

Drift(e) ==
     (IF ModelIdx' # RealIdx(e.st) THEN {"M-index-files"} ELSE {})
  \cup (IF ModelPri' # RealPri(e.st) THEN {"M-primary-files"} ELSE {})
  \cup (IF ModelBk' # RealBk(e) THEN {"M-bucket-table"} ELSE {})
  \cup (IF ModelFl' # e.st.fl THEN {"M-freelist"} ELSE {})
  \cup (IF ModelGc' # e.st.gc THEN {"M-gc-file"} ELSE {})
  \cup (IF pfirst' # e.st.ph.first THEN {"M-primary-first-file"} ELSE {})
  \cup (IF ifirst' # e.st.ih.first THEN {"M-index-first-file"} ELSE {})

TInit == CInit /\ l = 1 /\ RegInit

TNext ==
  /\ l <= Len(Trace)
  /\ LET e == Trace[l] IN
       CASE e.e = "reset" ->
              /\ kv' = [k \in Keys |-> -1]
              /\ bk' = [b \in Buckets |-> 0] /\ inext' = [b \in Buckets |-> NoList]
              /\ ifiles' = << <<>> >> /\ ifirst' = 0 /\ ilen' = 0
              /\ pnext' = <<>> /\ pfiles' = << <<>> >> /\ pfirst' = 0 /\ plen' = 0 /\ recFile' = 0 /\ recPos' = 0
              /\ flpool' = <<>> /\ flfile' = <<>> /\ flgc' = [has |-> FALSE, l |-> <<>>] /\ gcmem' = NoMem /\ hist' = <<>>
              /\ dur' = [k \in Keys |-> -1] /\ since' = [k \in Keys |-> {}] /\ ok' = AllOK
         [] e.e = "put" -> CPut(KeyOfNo(e.k), e.vlen)
         [] e.e = "rem" -> CRemove(KeyOfNo(e.k))
         [] e.e = "flush" ->
              /\ hist' = hist /\ dur' = kv /\ since' = [k \in Keys |-> {}] /\ ok' = AllOK
              /\ IF pnext = <<>> /\ Dirty = {}
                 THEN UNCHANGED <<kv, bk, inext, ifiles, ifirst, ilen, pnext, pfiles, pfirst, plen, recFile, recPos, flpool, flfile, flgc, gcmem>>
                 ELSE LET rn    == RealNew(e.st)
                          new   == [i \in 1..Len(rn) |-> rn[i].b]
                          order == IF new \in Perms(Dirty) THEN new ELSE CHOOSE o \in Perms(Dirty) : TRUE
                      IN FlushWith(order)
              /\ Flag(e, Drift(e))
         [] e.e = "prigc" -> CPriGC(e.lowUse, e.deadline) /\ Flag(e, Drift(e))
         [] e.e = "idxgc" -> CIdxGC(e.scanFree, e.deadline) /\ Flag(e, Drift(e))
         \* Close + reopen (same bit size): the commit's flush order is bound from the projection, the recovery path from the
         \* event; the model's files, table (snapshot or rescan) and freelist are compared with the reopened store's
         [] e.e = "reopen" /\ e.oerr = "" /\ "st" \in DOMAIN e ->
              LET rn    == RealNew(e.st)
                  new   == [i \in 1..Len(rn) |-> rn[i].b]
                  order == IF new \in Perms(Dirty) THEN new ELSE CHOOSE o \in Perms(Dirty) : TRUE
              IN /\ ReopenWith(IF e.snap = "keep" THEN "snapshot" ELSE "rescan", order)
                 /\ Flag(e, Drift(e) \cup (IF ok'.paths THEN {} ELSE {"M-recovery-paths-differ-in-the-model"}))
         [] OTHER -> UNCHANGED cvars
  /\ Consumed(l)
  /\ l' = l + 1

TSpec == TInit /\ [][TNext]_tvars
=======================================================================
