------------------------- MODULE FlushRateTrace -------------------------
(* C12, I->S binding.  Total monitor over traces of schedule replays on the *)
(* real store (engine "flushrate").  Events: "pt" = a thread passed a yield  *)
(* point (totally ordered), "seg-begin"/"seg-end" = one schedule step of one *)
(* thread, "free" = from here on all threads run on their own with a 1 ms    *)
(* ticker, "end" = which writers never returned.                             *)
(*                                                                           *)
(*  R1  no caller waits for ever: every writer has returned 2 s after the    *)
(*      schedule (three orders of magnitude above the tick).                 *)
(*  R2  a writer is released only by a flush that completes after its wait   *)
(*      began: between its registration and its release a flusher step in    *)
(*      which Flush RETURNED must have begun.  (Judged in the controlled     *)
(*      phase only; there the order of events is deterministic.)             *)
EXTENDS TraceLib

VARIABLES l, regAt, complAt, inFree, curBegin
\* regAt[w]   = line of w's tick.registered (0 = not registered)
\* complAt    = set of lines at which a flusher step that turned out to return from Flush began
vars == <<l, regAt, complAt, inFree, curBegin>>

Init == l = 1 /\ regAt = <<>> /\ complAt = {} /\ inFree = FALSE /\ curBegin = 0 /\ RegInit

\* does the flusher step that begins at line b return from Flush?  look ahead to its seg-end
RECURSIVE SegEnd(_)
SegEnd(j) == IF j > Len(Trace) THEN 0
             ELSE IF Trace[j].e = "seg-end" THEN j
             ELSE IF Trace[j].e \in {"reset", "free", "end"} THEN 0
             ELSE SegEnd(j + 1)
Completing(b) == LET j == SegEnd(b + 1) IN j # 0 /\ Trace[j].flushReturned

Rules(e) ==
     (IF e.e = "end" /\ Len(e.stuck) > 0 THEN {"R1-writer-never-released"} ELSE {})
  \cup (IF e.e = "end" /\ e.errs > 0 THEN {"put-error"} ELSE {})
  \cup (IF e.e = "pt" /\ Len(e.p) >= 6 /\ SubSeq(e.p, 1, 6) = "panic:" THEN {"panic"} ELSE {})
  \cup (IF e.e = "pt" /\ e.p = "tick.released" /\ ~inFree /\ e.th \in DOMAIN regAt
           /\ ~(\E b \in complAt : b > regAt[e.th])
           /\ ~(curBegin > regAt[e.th] /\ Completing(curBegin))
        THEN {"R2-released-without-completed-flush"} ELSE {})

Next ==
  /\ l <= Len(Trace)
  /\ LET e == Trace[l] IN
       /\ Flag(e, Rules(e))
       /\ regAt' = (IF e.e = "reset" THEN <<>>
                    ELSE IF e.e = "pt" /\ e.p = "tick.registered"
                         THEN [w \in DOMAIN regAt \cup {e.th} |-> IF w = e.th THEN l ELSE regAt[w]]
                    ELSE regAt)
       /\ complAt' = (IF e.e = "reset" THEN {}
                      ELSE IF e.e = "seg-end" /\ e.flushReturned THEN complAt \cup {curBegin}
                      ELSE complAt)
       /\ curBegin' = (IF e.e = "seg-begin" /\ e.th \in {"f", "x"} THEN l ELSE IF e.e = "reset" THEN 0 ELSE curBegin)
       /\ inFree' = (IF e.e = "reset" THEN FALSE ELSE IF e.e = "free" THEN TRUE ELSE inFree)
  /\ Consumed(l)
  /\ l' = l + 1

Spec == Init /\ [][Next]_vars
=======================================================================
