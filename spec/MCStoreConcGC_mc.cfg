SPECIFICATION Spec
INVARIANTS Undisturbed NoIdxReadError NoUpdateError
VIEW View
CHECK_DEADLOCK FALSE
