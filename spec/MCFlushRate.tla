-------------------------- MODULE MCFlushRate --------------------------
EXTENDS FlushRate, Json
\* one schedule per transition of the state graph
EmitEdges == [][PrintT(<<"SCN", ToJson([schedule |-> hist'])>>)]_vars
\* terminal states: every thread has finished or can only be woken
Quiet == (\A w \in Writers : wpc[w] \in {"done", "signaled"}) /\ fpc = "select" /\ xpc = "done" /\ flushNow = 0
=======================================================================
