------------------------------ MODULE LinTrace ------------------------------
(* C05 / C06, I->S binding.  TLC as linearizability checker for one short    *)
(* recorded history of the real store: events "inv" / "res" (with results)   *)
(* in their real-time order, background steps "bg" (flush / GC cycles, must   *)
(* not fail), and "final" with the contents read after all activity stopped,  *)
(* before and after a flush + clean reopen.  The history is accepted iff some *)
(* total order of the calls that respects real time explains every result     *)
(* and ends in the final contents (KV.tla semantics).                         *)
EXTENDS TraceLib

VARIABLES l, ops, cfg, at, kf
\* ops: sequence of [th, op, k, v, inv, rsp (0 = pending), r]
\* at : thread -> the yield point where it was last seen ("pt" events)
\* kf : known-finding windows that opened in this history (trigger predicates, see below)
vars == <<l, ops, cfg, at, kf>>

Init == l = 1 /\ ops = <<>> /\ cfg = [imm |-> FALSE] /\ at = <<>> /\ kf = {} /\ RegInit

\* ---- trigger predicates of the known findings of C06 (evaluated on the recorded yield points)
\* KF-C06-idx-read-after-reap: index GC decides about / truncates a record list while a call sits
\* between reading the bucket position and reading the record list
\* KF-C06-stale-primary-loc: primary GC is about to mark a record deleted while a call holds a
\* primary location it has not read yet
Clients == {t \in DOMAIN at : t \notin {"f", "f2", "ig", "pg"}}
HoldsPos == \E t \in Clients : at[t] = "idx.get.afterBucketInfo"
HoldsLoc == \E t \in Clients : at[t] \in {"get.afterIdxGet", "put.afterIdxGet", "rem.afterIdxGet", "priget.before", "pri.get.afterCached"}
Window(e) ==
     (IF e.th = "ig" /\ e.p \in {"idxgc.afterBusy", "idxgc.beforeTruncate"} /\ HoldsPos THEN {"KF-C06-idx-read-after-reap"} ELSE {})
  \cup (IF e.th = "pg" /\ e.p \in {"prigc.beforeDelete", "prigc.beforeTruncate"} /\ HoldsLoc THEN {"KF-C06-stale-primary-loc"} ELSE {})

Apply(kv, o) ==
  CASE o.op = "get" -> <<kv, IF kv[o.k] # 0 THEN <<"val", kv[o.k]>> ELSE <<"absent">>>>
    [] o.op = "has" -> <<kv, <<"has", kv[o.k] # 0>>>>
    [] o.op = "rem" -> <<[kv EXCEPT ![o.k] = 0], <<"removed", kv[o.k] # 0>>>>
    [] o.op = "put" -> IF kv[o.k] # 0 /\ cfg.imm THEN <<kv, <<"exists">>>>
                       ELSE <<[kv EXCEPT ![o.k] = o.v], <<"ok">>>>

Perms(n) == {s \in [1..n -> 1..n] : \A i, j \in 1..n : i # j => s[i] # s[j]}
RECURSIVE Run(_, _, _)
Run(kv, s, i) == IF i > Len(s) THEN <<kv, TRUE>>
                 ELSE LET a == Apply(kv, ops[s[i]]) IN
                      IF a[2] = ops[s[i]].r THEN Run(a[1], s, i + 1) ELSE <<kv, FALSE>>
RealTimeOK(s) == \A i, j \in 1..Len(s) : i < j => ~(ops[s[j]].rsp < ops[s[i]].inv)
Explains(final) == \E s \in Perms(Len(ops)) :
                      RealTimeOK(s) /\ LET r == Run(cfg.init, s, 1) IN r[2] /\ \A k \in DOMAIN final : r[1][k] = final[k]

IsErr(r) == r[1] \in {"error", "panic"}

Rules(e) ==
     (IF e.e = "res" /\ IsErr(e.r) THEN {"call-failed"} ELSE {})
  \cup (IF e.e = "res" /\ e.r[1] = "val" /\ e.r[2] = -2 THEN {"foreign-bytes"} ELSE {})
  \cup (IF e.e = "bg" /\ e.err # "" THEN {"background-step-failed"} ELSE {})
  \cup (IF e.e = "final" /\ Len(e.stuck) > 0 THEN {"threads-did-not-finish"} ELSE {})
  \cup (IF e.e = "final" /\ Len(e.stuck) = 0 /\ Len(e.errs) > 0 THEN {"final-read-error"} ELSE {})
  \cup (IF e.e = "final" /\ Len(e.stuck) = 0 /\ e.reopen # "" THEN {"close-or-reopen-failed"} ELSE {})
  \cup (IF e.e = "final" /\ Len(e.stuck) = 0 /\ (\E k \in DOMAIN e.kv : e.kv[k] = -2 \/ e.kv2[k] = -2) THEN {"foreign-bytes"} ELSE {})
  \cup (IF e.e = "final" /\ Len(e.stuck) = 0 /\ (\A i \in 1..Len(ops) : ops[i].rsp # 0 /\ ~IsErr(ops[i].r)) /\ ~Explains(e.kv)
        THEN {"not-linearizable"} ELSE {})
  \cup (IF e.e = "final" /\ Len(e.stuck) = 0 /\ e.reopen = "" /\ e.kv2 # e.kv THEN {"contents-changed-by-flush-and-reopen"} ELSE {})
  \cup (IF e.e = "final" THEN {"window:" \o w : w \in kf} ELSE {})

Next ==
  /\ l <= Len(Trace)
  /\ LET e == Trace[l] IN
       /\ Flag(e, IF e.e = "reset" THEN {} ELSE Rules(e))
       /\ cfg' = (IF e.e = "reset" THEN e ELSE cfg)
       /\ at' = (IF e.e = "reset" THEN <<>>
                 ELSE IF e.e = "pt" THEN [t \in DOMAIN at \cup {e.th} |-> IF t = e.th THEN e.p ELSE at[t]]
                 ELSE at)
       /\ kf' = (IF e.e = "reset" THEN {} ELSE IF e.e = "pt" THEN kf \cup Window(e) ELSE kf)
       /\ ops' = (IF e.e = "reset" THEN <<>>
                  ELSE IF e.e = "inv" THEN Append(ops, [th |-> e.th, op |-> e.op, k |-> e.k, v |-> e.v, inv |-> l, rsp |-> 0, r |-> <<"none">>])
                  ELSE IF e.e = "res" THEN [i \in 1..Len(ops) |-> IF ops[i].th = e.th /\ ops[i].rsp = 0
                                                                    THEN [ops[i] EXCEPT !.rsp = l, !.r = e.r] ELSE ops[i]]
                  ELSE ops)
  /\ Consumed(l)
  /\ l' = l + 1

Spec == Init /\ [][Next]_vars
=======================================================================
