-------------------------- MODULE MCStoreConcGC --------------------------
EXTENDS StoreConcGC, Json
EmitEdges == [][PrintT(<<"SCN", ToJson([schedule |-> hist', op |-> prog])>>)]_vars
=======================================================================
