SPECIFICATION SpecL
PROPERTIES NoLostWakeup
INVARIANTS TypeOK ReleasedByLaterFlush
CHECK_DEADLOCK FALSE
