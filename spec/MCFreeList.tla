----------------------------- MODULE MCFreeList -----------------------------
EXTENDS FreeList, Json
\* one schedule per transition of the state graph
EmitEdges == [][PrintT(<<"SCN", ToJson([schedule |-> sched'])>>)]_vars
=======================================================================
