--------------------------- MODULE MCLifecycle ---------------------------
EXTENDS Lifecycle, Json
\* scenarios: the step of a collector cycle during which Close is issued
EmitEdges == [][(cpc = "open" /\ cpc' = "stopFlusher") =>
                 PrintT(<<"SCN", ToJson([igAt |-> ic, pgAt |-> pcy])>>)]_vars
=======================================================================
