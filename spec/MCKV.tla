------------------------------ MODULE MCKV ------------------------------
EXTENDS KV, Json
\* every complete history (BFS without VIEW enumerates all of them; -simulate samples them)
EmitFull == (Len(hist) = MaxOps) => PrintT(<<"SCN", ToJson([ops |-> hist])>>)
=======================================================================
