------------------------- MODULE FileCacheTrace -------------------------
(* C14, I->S binding.  Total monitor over traces recorded from the real    *)
(* filecache.FileCache.  Ghost state is derived from the calls only: how   *)
(* many Opens of each handle are outstanding (lent) and the capacity.      *)
(* Everything else is an observation of the real process: whether each     *)
(* handle still works (Stat), the descriptor count, Len(), errors, panics. *)
(* The rules are independent of the eviction policy.                       *)
EXTENDS TraceLib

VARIABLES l, lent, cap
vars == <<l, lent, cap>>

Init == l = 1 /\ lent = <<>> /\ cap = 0 /\ RegInit

Pad(s, n) == [i \in 1..n |-> IF i <= Len(s) THEN s[i] ELSE 0]
OpenSet(e) == {h \in 1..Len(e.stat) : e.stat[h]}
LentSet(ln) == {h \in 1..Len(ln) : ln[h] > 0}

Rules(e, ln, cp) ==
     (IF e.panic THEN {"panic"} ELSE {})
  \cup (IF e.err # "" /\ ~e.panic THEN {"error"} ELSE {})
  \* a lent handle stays usable
  \cup (IF \E h \in LentSet(ln) : ~e.stat[h] THEN {"lent-handle-closed"} ELSE {})
  \* open descriptors <= capacity + handles lent out
  \cup (IF e.fds > cp + Cardinality(LentSet(ln)) THEN {"fd-bound"} ELSE {})
  \cup (IF e.fds # Cardinality(OpenSet(e)) THEN {"fd-count-vs-handles"} ELSE {})
  \* released and not cached => closed: open unlent handles are all in the cache
  \cup (IF ~e.panic /\ Cardinality(OpenSet(e) \ LentSet(ln)) > e.len THEN {"released-not-closed"} ELSE {})
  \cup (IF e.e \in {"clear"} /\ OpenSet(e) \ LentSet(ln) # {} THEN {"released-not-closed-after-clear"} ELSE {})
  \cup (IF e.e = "setsize" /\ e.c = 0 /\ OpenSet(e) \ LentSet(ln) # {} THEN {"released-not-closed-after-clear"} ELSE {})
  \cup (IF e.e = "remove" /\ (\E h \in OpenSet(e) \ LentSet(ln) : e.names[h] = e.n) THEN {"released-not-closed-after-remove"} ELSE {})
  \cup (IF cp = 0 /\ OpenSet(e) \ LentSet(ln) # {} THEN {"released-not-closed-cap0"} ELSE {})
  \cup (IF ~e.panic /\ e.cap # cp THEN {"capacity"} ELSE {})
  \cup (IF ~e.panic /\ cp > 0 /\ e.len > cp THEN {"len-exceeds-capacity"} ELSE {})

Next ==
  /\ l <= Len(Trace)
  /\ LET e  == Trace[l]
         n  == Len(e.stat)
         l0 == IF e.e = "new" THEN <<>> ELSE Pad(lent, n)
         ln == IF e.e = "open" /\ e.h > 0 THEN [Pad(l0, n) EXCEPT ![e.h] = @ + 1]
               ELSE IF e.e = "close" /\ e.h > 0 /\ e.h <= n THEN [l0 EXCEPT ![e.h] = @ - 1]
               ELSE l0
         cp == IF e.e \in {"new", "setsize"} THEN e.c ELSE cap
     IN /\ Flag(e, Rules(e, ln, cp))
        /\ lent' = ln
        /\ cap' = cp
  /\ Consumed(l)
  /\ l' = l + 1

Spec == Init /\ [][Next]_vars
=======================================================================
