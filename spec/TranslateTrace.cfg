SPECIFICATION TSpec
CONSTANTS
  OldFiles <- TraceOld
  NewFiles <- TraceNew
INVARIANT NotAccepted
CHECK_DEADLOCK FALSE
