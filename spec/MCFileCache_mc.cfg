SPECIFICATION Spec
INVARIANTS LentOpen ClosedOnce ReleasedClosed RefsOK Bound NoPanic NoSpuriousErr
VIEW View
CHECK_DEADLOCK FALSE


