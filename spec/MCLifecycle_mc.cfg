SPECIFICATION Spec
INVARIANTS AllStopped NoStepAfterClose RelocationFlushed
VIEW View
CHECK_DEADLOCK FALSE
