-------------------------- MODULE Blockstore --------------------------
(* C15.  The blockstore adapter (storethehash.go) over an immutable store. *)
(*                                                                          *)
(* A multihash is <<fn, d>>: "the fn-digest of data d".  A CID is           *)
(* [v, codec, fn, d]; CIDs that differ only in version/codec share the      *)
(* multihash <<fn, d>> and address the same block.  A block pairs a CID     *)
(* with bytes that need not hash to it (blocks.NewBlockWithCid does not     *)
(* check), which is what makes both hash-on-read branches observable.       *)
EXTENDS Integers, Sequences, FiniteSets, TLC

CONSTANTS Fns,       \* hash functions, e.g. {"sha2-256", "blake2b-256"}
          Datas,     \* data identifiers, e.g. {"d0", "d1", "d2"} ("d0" is the empty block)
          MaxOps     \* bound on history length

VARIABLES st,        \* multihash -> stored data id | "none"
          hor,       \* hash-on-read enabled
          hist

vars == <<st, hor, hist>>
View == <<st, hor>>

Mhs  == Fns \X Datas
\* CIDv0 exists only for dag-pb + sha2-256
Cids == {c \in [v : {0, 1}, codec : {"raw", "dag-pb"}, fn : Fns, d : Datas] :
           c.v = 0 => (c.codec = "dag-pb" /\ c.fn = "sha2-256")}
Mh(c) == <<c.fn, c.d>>

Init == st = [m \in Mhs |-> "none"] /\ hor = FALSE /\ hist = <<>>

Log(rec) == Len(hist) < MaxOps /\ hist' = Append(hist, rec)

\* Put / PutMany of one block: first write wins, duplicates are accepted silently
PutEff(s, c, d) == IF s[Mh(c)] = "none" THEN [s EXCEPT ![Mh(c)] = d] ELSE s

Put(c, d, cancelled) ==
  /\ Log([op |-> "put", c |-> c, d |-> d, x |-> cancelled, r |-> IF cancelled THEN "ctx" ELSE "ok"])
  /\ st' = (IF cancelled THEN st ELSE PutEff(st, c, d))
  /\ UNCHANGED hor

PutMany2(c1, d1, c2, d2, cancelled) ==
  /\ Log([op |-> "putmany", c |-> c1, d |-> d1, c2 |-> c2, d2 |-> d2, x |-> cancelled, r |-> IF cancelled THEN "ctx" ELSE "ok"])
  /\ st' = (IF cancelled THEN st ELSE PutEff(PutEff(st, c1, d1), c2, d2))
  /\ UNCHANGED hor

GetRes(c, cancelled) ==
  IF cancelled THEN [r |-> "ctx", d |-> "none"]
  ELSE IF st[Mh(c)] = "none" THEN [r |-> "notfound", d |-> "none"]
  ELSE IF hor /\ st[Mh(c)] # c.d THEN [r |-> "wronghash", d |-> "none"]
  ELSE [r |-> "ok", d |-> st[Mh(c)]]

Get(c, cancelled) ==
  /\ Log([op |-> "get", c |-> c, x |-> cancelled, r |-> GetRes(c, cancelled).r, d |-> GetRes(c, cancelled).d])
  /\ UNCHANGED <<st, hor>>

Has(c, cancelled) ==
  /\ Log([op |-> "has", c |-> c, x |-> cancelled,
          r |-> IF cancelled THEN "ctx" ELSE IF st[Mh(c)] = "none" THEN "false" ELSE "true"])
  /\ UNCHANGED <<st, hor>>

GetSize(c, cancelled) ==
  /\ Log([op |-> "size", c |-> c, x |-> cancelled,
          r |-> IF cancelled THEN "ctx" ELSE IF st[Mh(c)] = "none" THEN "notfound" ELSE "ok",
          d |-> IF cancelled THEN "none" ELSE st[Mh(c)]])
  /\ UNCHANGED <<st, hor>>

Delete(c, cancelled) ==
  /\ Log([op |-> "delete", c |-> c, x |-> cancelled, r |-> IF cancelled THEN "ctx" ELSE "ok"])
  /\ st' = (IF cancelled THEN st ELSE [st EXCEPT ![Mh(c)] = "none"])
  /\ UNCHANGED hor

HashOnRead(b) ==
  /\ Log([op |-> "hashonread", b |-> b])
  /\ hor' = b
  /\ UNCHANGED st

Next ==
  \/ \E c \in Cids, d \in Datas, x \in BOOLEAN : Put(c, d, x)
  \/ \E c \in Cids, x \in BOOLEAN : Get(c, x) \/ Has(c, x) \/ GetSize(c, x) \/ Delete(c, x)
  \/ \E b \in BOOLEAN : HashOnRead(b)
  \/ \E c1, c2 \in Cids, x \in BOOLEAN : PutMany2(c1, c1.d, c2, c2.d, x)

Spec == Init /\ [][Next]_vars

\* ------------------------------------------------------------------ C15 (design level)
TypeOK == st \in [Mhs -> Datas \cup {"none"}] /\ hor \in BOOLEAN
\* a cancelled call never changes the contents
CancelledNoEffect == [][(Len(hist') > Len(hist) /\ "x" \in DOMAIN hist'[Len(hist')] /\ hist'[Len(hist')].x) => st' = st]_vars
\* Has and GetSize agree with Get
Agree == \A c \in Cids : (GetRes(c, FALSE).r = "notfound") <=> (st[Mh(c)] = "none")
\* CIDs sharing a multihash address the same block
Alias == \A c1, c2 \in Cids : Mh(c1) = Mh(c2) => st[Mh(c1)] = st[Mh(c2)]
=======================================================================
