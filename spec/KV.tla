------------------------------- MODULE KV -------------------------------
(* The map every store-level property (C01-C06, C09-C11) is phrased against *)
(* and the generator of call histories for the sequential store engine.      *)
(*                                                                            *)
(* Keys are 1..NK and value ids 1..NV; the harness maps them to adversarial   *)
(* multihash digests / byte strings chosen by the configuration sweep.  The   *)
(* value ids in Empties all denote the empty byte string (nil and []byte{}),  *)
(* compared by content.  Maintenance operations (Flush, Iterate, GC cycles    *)
(* with every parameter, Close/reopen in every recovery mode, bit-size        *)
(* change, refused opens) leave the map unchanged - that they really do is    *)
(* exactly what C02, C04 and C09 demand of the implementation.                *)
EXTENDS Integers, Sequences, FiniteSets, TLC

CONSTANTS NK, NV, Empties, Immutable,
          MaxOps,      \* history length bound
          Weights,     \* sequence of op-class names; repetition = weight in simulation
          Deadlines,   \* GC "time limits": the cycle's context expires at the n-th check (0 = never)
          LowUses,     \* low-use thresholds for primary GC
          BitsSet      \* index bit sizes a reopen may switch to

VARIABLES kv,          \* 1..NK -> 0 (absent) | normalised value id
          hist

vars == <<kv, hist>>

Keys == 1..NK
Vals == 1..NV
MinOf(S) == CHOOSE x \in S : \A y \in S : x <= y
Norm(v) == IF v \in Empties THEN MinOf(Empties) ELSE v

Init == kv = [k \in Keys |-> 0] /\ hist = <<>>

Log(rec) == Len(hist) < MaxOps /\ hist' = Append(hist, rec)

Put(k, v) ==
  /\ Log([op |-> "put", k |-> k, v |-> v])
  /\ kv' = (IF Immutable /\ kv[k] # 0 THEN kv ELSE [kv EXCEPT ![k] = Norm(v)])

Remove(k) ==
  /\ Log([op |-> "rem", k |-> k])
  /\ kv' = [kv EXCEPT ![k] = 0]

Read(o, k) == Log([op |-> o, k |-> k]) /\ UNCHANGED kv
Flush      == Log([op |-> "flush"]) /\ UNCHANGED kv
Iterate    == Log([op |-> "iter"]) /\ UNCHANGED kv
IdxGC(sf, dl)  == Log([op |-> "idxgc", scanFree |-> sf, deadline |-> dl]) /\ UNCHANGED kv
PriGC(lu, dl)  == Log([op |-> "prigc", lowUse |-> lu, deadline |-> dl]) /\ UNCHANGED kv
Reopen(snap)   == Log([op |-> "reopen", snap |-> snap]) /\ UNCHANGED kv
Rebits(b, snap) == Log([op |-> "reopen", snap |-> snap, bits |-> b]) /\ UNCHANGED kv
OpenWrong(w)   == Log([op |-> "openwrong", snap |-> "keep", n |-> w]) /\ UNCHANGED kv

Op(c) ==
  CASE c = "put"    -> \E k \in Keys, v \in Vals : Put(k, v)
    [] c = "rem"    -> \E k \in Keys : Remove(k)
    [] c = "get"    -> \E k \in Keys : Read("get", k)
    [] c = "has"    -> \E k \in Keys : Read("has", k)
    [] c = "size"   -> \E k \in Keys : Read("size", k)
    [] c = "flush"  -> Flush
    [] c = "iter"   -> Iterate
    [] c = "idxgc"  -> \E sf \in BOOLEAN, dl \in Deadlines : IdxGC(sf, dl)
    [] c = "prigc"  -> \E lu \in LowUses, dl \in Deadlines : PriGC(lu, dl)
    [] c = "reopen" -> \E s \in {"keep", "drop", "bad"} : Reopen(s)
    [] c = "rebits" -> \E b \in BitsSet, s \in {"keep", "drop"} : Rebits(b, s)
    [] c = "openwrong" -> \E w \in 1..4 : OpenWrong(w)    \* 1 index limit, 2 primary limit; 3, 4 the same with another bit size as well

Next == \E i \in 1..Len(Weights) : Op(Weights[i])

Spec == Init /\ [][Next]_vars

TypeOK == kv \in [Keys -> {0} \cup {Norm(v) : v \in Vals}]
\* maintenance never changes the map (trivial here; demanded of the code by the trace spec)
MaintenanceKeeps == [][hist'[Len(hist')].op \notin {"put", "rem"} => kv' = kv]_vars
=======================================================================
