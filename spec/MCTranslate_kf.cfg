SPECIFICATION Spec
CONSTANTS
  OldFiles = {0, 1, 2}
  NewFiles = {0, 1}
INVARIANTS NeverSilentlyFewer
VIEW View
CHECK_DEADLOCK FALSE
