--------------------------- MODULE StoreTrace ---------------------------
(* I->S binding for the sequential store engine (C01, C02, C04, C09).        *)
(* Total monitor: the only state is the map of KV.tla, advanced from the     *)
(* logged calls; every logged result, every post-call probe of every key     *)
(* (Get, Has, GetSize), every iteration, every reopen outcome is judged       *)
(* against it.  GC return values are logged but never judged.                *)
EXTENDS TraceLib

VARIABLES l, kv, cfg
vars == <<l, kv, cfg>>

Init == l = 1 /\ kv = <<>> /\ cfg = [nk |-> 0] /\ RegInit

Empt == {v \in 1..Len(cfg.vlens) : cfg.vlens[v] = 0}
MinOf(S) == CHOOSE x \in S : \A y \in S : x <= y
Norm(v) == IF v \in Empt THEN MinOf(Empt) ELSE v
Keys == 1..cfg.nk
\* normalisation for the reset line itself (cfg is not set yet)
Norm0(e, v) == LET em == {x \in 1..Len(e.vlens) : e.vlens[x] = 0} IN IF v \in em THEN MinOf(em) ELSE v

\* probe of key k: <<getFound, getVal, has, sizeFound, size, err>>
ProbeRules(pr, m) ==
  UNION {
    LET p == pr[k] IN
       (IF p[6] = 1 THEN {"probe-error"} ELSE {})
    \cup (IF p[2] = -2 THEN {"foreign-bytes"} ELSE {})
    \cup (IF m[k] # 0 /\ p[6] = 0 /\ (p[1] = 0 \/ p[3] = 0 \/ p[4] = 0) THEN {"key-lost"} ELSE {})
    \cup (IF m[k] = 0 /\ (p[1] = 1 \/ p[3] = 1 \/ p[4] = 1) THEN {"key-resurrected"} ELSE {})
    \cup (IF m[k] # 0 /\ p[1] = 1 /\ p[2] > 0 /\ Norm(p[2]) # m[k] THEN {"wrong-value"} ELSE {})
    \cup (IF m[k] # 0 /\ p[4] = 1 /\ p[5] # cfg.vlens[m[k]] THEN {"wrong-size"} ELSE {})
    : k \in 1..Len(pr) }

PairSet(ps) == {<<ps[i][1], IF ps[i][2] > 0 THEN Norm(ps[i][2]) ELSE ps[i][2]>> : i \in 1..Len(ps)}

OpRules(e, m2) ==
  LET k == e.k IN
  IF e.panic # "" THEN {"panic"} ELSE
     (IF e.e = "put" /\ e.r # (IF cfg.imm /\ kv[k] # 0 THEN "exists" ELSE "") THEN {"put-result"} ELSE {})
  \cup (IF e.e \in {"get", "has", "size", "rem", "flush", "iter"} /\ e.r # "" THEN {e.e \o "-error"} ELSE {})
  \cup (IF e.e = "get" /\ e.r = "" /\ ~(e.found = (kv[k] # 0) /\ (e.found => (e.val > 0 /\ Norm(e.val) = kv[k]))) THEN {"get-result"} ELSE {})
  \cup (IF e.e = "has" /\ e.r = "" /\ e.found # (kv[k] # 0) THEN {"has-result"} ELSE {})
  \cup (IF e.e = "size" /\ e.r = "" /\ ~(e.found = (kv[k] # 0) /\ (e.found => e.size = cfg.vlens[kv[k]])) THEN {"getsize-result"} ELSE {})
  \cup (IF e.e = "rem" /\ e.r = "" /\ e.removed # (kv[k] # 0) THEN {"remove-result"} ELSE {})
  \cup (IF e.e = "iter" /\ e.r = "" /\ ~(PairSet(e.pairs) = {<<x, kv[x]>> : x \in {y \in Keys : kv[y] # 0}}
                                          /\ Len(e.pairs) = Cardinality({y \in Keys : kv[y] # 0})) THEN {"iteration"} ELSE {})
  \cup (IF e.e \in {"reopen", "openwrong"} /\ e.cerr # "" THEN {"close-error"} ELSE {})
  \cup (IF e.e \in {"reopen", "openwrong"} /\ e.cerr2 # "" THEN {"second-close-error"} ELSE {})
  \cup (IF e.e \in {"reopen", "openwrong"} /\ e.oerr # "" THEN {"reopen-failed"} ELSE {})
  \cup (IF e.e \in {"reopen", "openwrong"} /\ e.cmp /\ (e.open_snap # "" \/ e.open_scan # "") THEN {"recovery-path-failed"} ELSE {})
  \cup (IF e.e \in {"reopen", "openwrong"} /\ e.cmp /\ e.open_snap = "" /\ e.open_scan = "" /\ e.bk_snap # e.bk_scan THEN {"snapshot-vs-rescan"} ELSE {})
  \cup (IF e.e = "openwrong" /\ e.werr # e.want THEN {"mismatch-not-refused"} ELSE {})
  \cup (IF e.e = "openwrong" /\ ~e.dirsame THEN {"refused-open-modified-files"} ELSE {})
  \cup (IF e.panic = "" /\ Len(e.pr) = cfg.nk THEN ProbeRules(e.pr, m2) ELSE {})

Next ==
  /\ l <= Len(Trace)
  /\ LET e == Trace[l] IN
       IF e.e = "reset"
       THEN /\ cfg' = e
            /\ kv' = [k \in 1..e.nk |-> IF e.init[k] > 0 THEN Norm0(e, e.init[k]) ELSE 0]
       ELSE IF e.e = "openfail"
       THEN /\ Flag(e, {"continuation-open-failed"})
            /\ UNCHANGED <<kv, cfg>>
       ELSE LET m2 == IF e.e = "put" /\ e.r = "" THEN [kv EXCEPT ![e.k] = Norm(e.v)]
                      ELSE IF e.e = "rem" /\ e.r = "" THEN [kv EXCEPT ![e.k] = 0]
                      ELSE kv
            IN /\ Flag(e, OpRules(e, m2))
               /\ kv' = m2
               /\ UNCHANGED cfg
  /\ Consumed(l)
  /\ l' = l + 1

Spec == Init /\ [][Next]_vars
=======================================================================
