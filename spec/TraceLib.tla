--------------------------- MODULE TraceLib ---------------------------
(* Shared part of every trace specification (total monitors).             *)
(* The trace is an ndjson file named by the environment variable VTRACE.   *)
(* A monitor never blocks: a line that the property forbids is recorded    *)
(* in TLC register 1 as [t, i, rule] and the run continues, so one pass    *)
(* reports every offending line of every trace in the file.  Register 2    *)
(* counts consumed lines; the POSTCONDITION prints both (picked up by the  *)
(* driver) - "VBAD" is the list of violations, "VDONE" proves that the     *)
(* whole file was consumed.  Needs -workers 1.                             *)
EXTENDS Integers, Sequences, FiniteSets, TLC, Json, IOUtils, SequencesExt

Trace == ndJsonDeserialize(IOEnv.VTRACE)

RegInit == TLCSet(1, <<>>) /\ TLCSet(2, 0)

Flag(e, rules) ==
  IF rules = {} THEN TRUE
  ELSE TLCSet(1, TLCGet(1) \o SetToSeq({[t |-> e.t, i |-> e.i, rule |-> r] : r \in rules}))

Consumed(n) == TLCSet(2, n)

Post ==
  /\ PrintT(<<"VBAD", ToJson(TLCGet(1))>>)
  /\ PrintT(<<"VDONE", ToJson([consumed |-> TLCGet(2)])>>)

RangeOf(s) == {s[i] : i \in 1..Len(s)}
=======================================================================
