------------------------------- MODULE Store -------------------------------
(* The sequential, byte-accurate mechanism model of store.Store with the     *)
(* multihash primary (store/store.go, store/index/index.go,                  *)
(* store/primary/multihash/multihash.go, store/freelist/freelist.go) for an   *)
(* 8-bit index: the bucket of a key is the first byte of its digest and the   *)
(* stored key drops that byte.                                                *)
(*                                                                            *)
(* One variable per piece of implementation state:                            *)
(*   bk      bucket table: bucket -> absolute position of the record list's   *)
(*           DATA (4 past its size prefix), 0 = empty                         *)
(*   inext   index nextPool: bucket -> [has, l]  (unflushed record lists)     *)
(*   ifiles  index files, oldest first: each a sequence of records            *)
(*           [b, ents, del, size]; ifirst = number of the first file; ilen =  *)
(*           length of the current (last) file                                *)
(*   pnext   primary nextPool: sequence of [pos, k, v] in Put order           *)
(*   pfiles  primary files: sequences of [k, v, del, size] (size = payload     *)
(*           bytes; a merged free span is one deleted record); pfirst, plen   *)
(*   flgc    the .gc file handed to primary GC ([has, l])                     *)
(*   gcmem   what the collectors remember between cycles (in memory only):    *)
(*           vis = files primary GC has looked at and that were not affected  *)
(*           since; ires = where an index GC cycle stopped by its time limit  *)
(*           resumes ([has, at])                                              *)
(*   recFile, recPos   where primary.Put predicts the next record             *)
(*   flpool, flfile    freelist pool / file: sequences of [off, sz]           *)
(*   kv      ghost: the map of KV.tla (refinement witness)                    *)
(* Record sizes: primary 4 + KeyLen + |v|; index 4 + 4 + SUM(13 + |prefix|);  *)
(* freelist 12.  A new file is started when the current length has reached    *)
(* the limit BEFORE a record is written (both in Put's prediction and in the  *)
(* flush), so file limits smaller than a record put every record in its own   *)
(* file.  Index.Flush writes the dirty buckets in Go map order: any order.    *)
(*                                                                            *)
(* Refines == Contents = kv is the design-level statement of C01 for this     *)
(* mechanism; StoreMTrace.tla binds the module to the real files.             *)
EXTENDS RLOps, FiniteSets, TLC

CONSTANTS Keys,       \* set of digests (equal length, >= 4 bytes); bucket = digest[1]
          Vals,       \* set of value lengths (a value is identified by its length)
          PriLimit, IdxLimit,
          MaxCalls,   \* bound on the history length (state space)
          WithGC,     \* TRUE: the two collectors' cycles are among the calls
          LowUses,    \* low-use thresholds of primary GC to explore (101 = never relocate)
          IDeadlines, \* time limits of an index GC cycle to explore (same convention as Deadlines)
          Deadlines   \* time limits of a primary GC cycle to explore: the cycle's context reports DeadlineExceeded from its
                      \* (d+1)-th check on (0 = no limit) - the deterministic stand-in for a time limit that the harness uses

VARIABLES kv, bk, inext, ifiles, ifirst, ilen,
          pnext, pfiles, pfirst, plen, recFile, recPos,
          flpool, flfile, flgc, gcmem, hist
vars == <<kv, bk, inext, ifiles, ifirst, ilen, pnext, pfiles, pfirst, plen, recFile, recPos, flpool, flfile, flgc, gcmem, hist>>
View == <<kv, bk, inext, ifiles, ifirst, ilen, pnext, pfiles, pfirst, plen, recFile, recPos, flpool, flfile, flgc, gcmem>>

Bucket(k) == k[1]
Strip(k) == SubSeq(k, 2, Len(k))
Buckets == {Bucket(k) : k \in Keys}
KeyLen == 2 + Len(CHOOSE k \in Keys : TRUE)      \* multihash = code byte + length byte + digest
NoList == [has |-> FALSE, l |-> <<>>]
NoRes == [has |-> FALSE, at |-> 0]
NoMem == [vis |-> {}, ires |-> NoRes]
SomeList(x) == [has |-> TRUE, l |-> x]

\* ---------------------------------------------------------------- primary
PRecSize(v) == 4 + KeyLen + v
RECURSIVE POffsets(_, _, _)
POffsets(recs, i, acc) == IF i > Len(recs) THEN <<>> ELSE <<acc>> \o POffsets(recs, i + 1, acc + 4 + recs[i].size)
\* primary.Get(pos): nextPool, then the files
PriLookup(pos) ==
  IF \E i \in 1..Len(pnext) : pnext[i].pos = pos
  THEN LET i == CHOOSE i \in 1..Len(pnext) : pnext[i].pos = pos
       IN [found |-> TRUE, k |-> pnext[i].k, v |-> pnext[i].v, del |-> FALSE]
  ELSE LET fnum  == pos \div PriLimit
           local == pos % PriLimit
           fi    == fnum - pfirst + 1
       IN IF fi < 1 \/ fi > Len(pfiles) THEN [found |-> FALSE, k |-> <<>>, v |-> 0, del |-> FALSE]
          ELSE LET recs == pfiles[fi]
                   offs == POffsets(recs, 1, 0)
               IN IF \E j \in 1..Len(recs) : offs[j] = local
                  THEN LET j == CHOOSE j \in 1..Len(recs) : offs[j] = local
                       IN [found |-> TRUE, k |-> recs[j].k, v |-> recs[j].v, del |-> recs[j].del]
                  ELSE [found |-> FALSE, k |-> <<>>, v |-> 0, del |-> FALSE]
\* primary.Put: the location the record WILL occupy
PutPos == IF recPos >= PriLimit THEN [f |-> recFile + 1, p |-> 0] ELSE [f |-> recFile, p |-> recPos]

\* ---------------------------------------------------------------- index
EntSize(e) == 13 + Len(e.p)
RECURSIVE EntsSize(_)
EntsSize(ents) == IF ents = <<>> THEN 0 ELSE EntSize(ents[1]) + EntsSize(Tail(ents))
IRecSize(rec) == 4 + rec.size          \* live record: size = 4 (bucket tag) + entries; a merged free span is one record
RECURSIVE IOffsets(_, _, _)
IOffsets(recs, i, acc) == IF i > Len(recs) THEN <<>> ELSE <<acc>> \o IOffsets(recs, i + 1, acc + IRecSize(recs[i]))
\* the record list the bucket table points at (readDiskBucket)
DiskList(b) ==
  IF bk[b] = 0 THEN NoList
  ELSE LET fnum  == (bk[b] - 4) \div IdxLimit
           local == bk[b] - fnum * IdxLimit - 4
           recs  == ifiles[fnum - ifirst + 1]
           offs  == IOffsets(recs, 1, 0)
           j     == CHOOSE j \in 1..Len(recs) : offs[j] = local
       IN SomeList(recs[j].ents)
EffList(b) == IF inext[b].has THEN inext[b] ELSE DiskList(b)

\* Index.Put with entries [p, k, loc]; the full key of the previous entry is read from the primary
IdxPut(l, k, loc) ==
  LET pos  == FindPos(l, k)
      has  == pos > 1
      prev == l[pos - 1]
  IN IF has /\ IsPrefix(prev.p, k)
     THEN LET pk == Strip(PriLookup(prev.loc.off).k)
              t  == FNCB(k, pk)
              tp == [p |-> Take(pk, Min(t + 1, Len(pk))), loc |-> prev.loc]
              tk == [p |-> Take(k, t + 1), loc |-> loc]
          IN IF t >= Len(k) THEN l
             ELSE Splice(l, pos - 1, pos, IF Greater(tk.p, tp.p) THEN <<tp, tk>> ELSE <<tk, tp>>)
     ELSE LET a == IF has THEN FNCB(k, prev.p) ELSE 0
              b == IF pos <= Len(l) THEN FNCB(k, l[pos].p) ELSE 0
              t == Min(Max(a, b), Len(k) - 1)
          IN Splice(l, pos, pos, << [p |-> Take(k, t + 1), loc |-> loc] >>)

\* store-level lookup: index, then primary, then full-key compare
Lookup(k) ==
  LET el == EffList(Bucket(k)) IN
  IF ~el.has THEN [found |-> FALSE, loc |-> [off |-> 0, sz |-> 0], v |-> 0]
  ELSE LET m == Match(el.l, Strip(k)) IN
       IF m = 0 THEN [found |-> FALSE, loc |-> [off |-> 0, sz |-> 0], v |-> 0]
       ELSE LET r == PriLookup(el.l[m].loc.off) IN
            IF r.found /\ ~r.del /\ r.k = k THEN [found |-> TRUE, loc |-> el.l[m].loc, v |-> r.v]
            ELSE [found |-> FALSE, loc |-> el.l[m].loc, v |-> 0]
Contents == [k \in Keys |-> IF Lookup(k).found THEN Lookup(k).v ELSE -1]

Init ==
  /\ kv = [k \in Keys |-> -1]
  /\ bk = [b \in Buckets |-> 0] /\ inext = [b \in Buckets |-> NoList]
  /\ ifiles = << <<>> >> /\ ifirst = 0 /\ ilen = 0
  /\ pnext = <<>> /\ pfiles = << <<>> >> /\ pfirst = 0 /\ plen = 0 /\ recFile = 0 /\ recPos = 0
  /\ flpool = <<>> /\ flfile = <<>> /\ flgc = [has |-> FALSE, l |-> <<>>] /\ gcmem = NoMem
  /\ hist = <<>>

Call(rec) == Len(hist) < MaxCalls /\ hist' = Append(hist, rec)

Put(k, v) ==
  /\ Call([op |-> "put", k |-> k, v |-> v])
  /\ LET lk == Lookup(k) IN
     IF lk.found /\ lk.v = v
     THEN UNCHANGED <<kv, bk, inext, ifiles, ifirst, ilen, pnext, pfiles, pfirst, plen, recFile, recPos, flpool, flfile, flgc, gcmem>>
     ELSE LET pp  == PutPos
              abs == PriLimit * pp.f + pp.p
              loc == [off |-> abs, sz |-> KeyLen + v]
              b   == Bucket(k)
              el  == EffList(b)
          IN /\ pnext' = Append(pnext, [pos |-> abs, k |-> k, v |-> v])
             /\ recFile' = pp.f /\ recPos' = pp.p + PRecSize(v)
             /\ IF lk.found
                THEN LET m == Match(el.l, Strip(k)) IN            \* Index.Update + freelist.Put
                     /\ inext' = [inext EXCEPT ![b] = SomeList([el.l EXCEPT ![m].loc = loc])]
                     /\ flpool' = Append(flpool, lk.loc)
                ELSE /\ inext' = [inext EXCEPT ![b] = SomeList(IF el.has THEN IdxPut(el.l, Strip(k), loc)
                                                               ELSE << [p |-> Take(Strip(k), 1), loc |-> loc] >>)]
                     /\ UNCHANGED flpool
             /\ kv' = [kv EXCEPT ![k] = v]
             /\ UNCHANGED <<bk, ifiles, ifirst, ilen, pfiles, pfirst, plen, flfile, flgc, gcmem>>

Remove(k) ==
  /\ Call([op |-> "rem", k |-> k])
  /\ LET lk == Lookup(k)
         b  == Bucket(k)
         el == EffList(b)
     IN IF ~lk.found
        THEN UNCHANGED <<kv, bk, inext, ifiles, ifirst, ilen, pnext, pfiles, pfirst, plen, recFile, recPos, flpool, flfile, flgc, gcmem>>
        ELSE LET m == Match(el.l, Strip(k)) IN
             /\ inext' = [inext EXCEPT ![b] = SomeList(Splice(el.l, m, m + 1, <<>>))]
             /\ flpool' = Append(flpool, lk.loc)
             /\ kv' = [kv EXCEPT ![k] = -1]
             /\ UNCHANGED <<bk, ifiles, ifirst, ilen, pnext, pfiles, pfirst, plen, recFile, recPos, flfile, flgc, gcmem>>

\* primary.Flush: append the pooled records, rolling when the current length has reached the limit
RECURSIVE PriAppendAll(_, _, _)
PriAppendAll(files, len, recs) ==
  IF recs = <<>> THEN [files |-> files, len |-> len]
  ELSE LET r      == [k |-> recs[1].k, v |-> recs[1].v, del |-> FALSE, size |-> KeyLen + recs[1].v]
           roll   == len >= PriLimit
           files2 == IF roll THEN Append(files, <<r>>) ELSE [files EXCEPT ![Len(files)] = Append(@, r)]
           len2   == (IF roll THEN 0 ELSE len) + PRecSize(r.v)
       IN PriAppendAll(files2, len2, Tail(recs))
\* index.Flush: the dirty buckets in the given order; then the bucket table is updated
RECURSIVE IdxAppendAll(_, _, _, _, _)
IdxAppendAll(files, len, order, pool, bks) ==
  IF order = <<>> THEN [files |-> files, len |-> len, bk |-> bks]
  ELSE LET b      == order[1]
           rec    == [b |-> b, ents |-> pool[b].l, del |-> FALSE, size |-> 4 + EntsSize(pool[b].l)]
           roll   == len >= IdxLimit
           files2 == IF roll THEN Append(files, <<rec>>) ELSE [files EXCEPT ![Len(files)] = Append(@, rec)]
           start  == IF roll THEN 0 ELSE len
           fnum   == ifirst + Len(files2) - 1
       IN IdxAppendAll(files2, start + IRecSize(rec), Tail(order), pool, [bks EXCEPT ![b] = fnum * IdxLimit + start + 4])
Perms(S) == {s \in [1..Cardinality(S) -> S] : \A i, j \in DOMAIN s : i # j => s[i] # s[j]}
Dirty == {b \in Buckets : inext[b].has}

FlushWith(order) ==
  LET pa == PriAppendAll(pfiles, plen, pnext)
      ia == IdxAppendAll(ifiles, ilen, order, inext, bk)
  IN /\ pfiles' = pa.files /\ plen' = pa.len /\ pnext' = <<>>
     /\ ifiles' = ia.files /\ ilen' = ia.len /\ bk' = ia.bk
     /\ inext' = [b \in Buckets |-> NoList]
     /\ flfile' = flfile \o flpool /\ flpool' = <<>>
     /\ UNCHANGED <<kv, ifirst, pfirst, recFile, recPos, flgc, gcmem>>

Flush ==
  /\ Call([op |-> "flush"])
  /\ IF pnext = <<>> /\ Dirty = {}        \* Store.Flush: no outstanding work (the freelist alone does not count)
     THEN UNCHANGED <<kv, bk, inext, ifiles, ifirst, ilen, pnext, pfiles, pfirst, plen, recFile, recPos, flpool, flfile, flgc, gcmem>>
     ELSE \E order \in Perms(Dirty) : FlushWith(order)


\* ---------------------------------------------------------------- primary GC
\* freelist hand-over: the flushed freelist file becomes .gc (an existing .gc is used as it is)
HandOver == IF flgc.has THEN [gc |-> flgc.l, fl |-> flfile] ELSE [gc |-> flfile, fl |-> <<>>]
\* deleteRecords: mark the record at each freed location if it is there, unmarked and of the recorded size
MarkAt(files, off, sz) ==
  LET fnum == off \div PriLimit   local == off % PriLimit   fi == fnum - pfirst + 1 IN
  IF fi < 1 \/ fi > Len(files) THEN files
  ELSE LET recs == files[fi]   offs == POffsets(recs, 1, 0) IN
       IF \E j \in 1..Len(recs) : offs[j] = local /\ ~recs[j].del /\ recs[j].size = sz
       THEN LET j == CHOOSE j \in 1..Len(recs) : offs[j] = local IN [files EXCEPT ![fi][j].del = TRUE]
       ELSE files
RECURSIVE MarkAll(_, _)
MarkAll(files, ents) == IF ents = <<>> THEN files ELSE MarkAll(MarkAt(files, ents[1].off, ents[1].sz), Tail(ents))
Affected(before, after) == {pfirst + i - 1 : i \in {j \in 1..Len(before) : before[j] # after[j]}}
\* reapRecords: merge adjacent free records, cut a free tail
RECURSIVE Merge(_)
Merge(recs) ==
  IF Len(recs) < 2 THEN recs
  ELSE IF recs[1].del /\ recs[2].del
       THEN Merge(<< [k |-> <<>>, v |-> 0, del |-> TRUE, size |-> recs[1].size + 4 + recs[2].size] >> \o SubSeq(recs, 3, Len(recs)))
       ELSE <<recs[1]>> \o Merge(Tail(recs))
CutTail(recs) == IF recs # <<>> /\ recs[Len(recs)].del THEN SubSeq(recs, 1, Len(recs) - 1) ELSE recs
Reap(recs) == CutTail(Merge(recs))
\* low-use relocation: if the free share of the file (as scanned, before this pass merged anything) has reached the
\* threshold, the last two records that are not marked deleted are copied to the end of the primary (primary.Put: into the
\* pool, at the predicted position) and the index is re-pointed with Index.UpdateIf - only if it still names the record
\* being moved; then the OLD location goes on the freelist, otherwise the unreachable COPY does
EffListW(inx, b) == IF inx[b].has THEN inx[b] ELSE DiskList(b)
SumSizes(recs, wantDel) == LET S == {j \in 1..Len(recs) : recs[j].del = wantDel} IN
                           LET RECURSIVE Acc(_)
                               Acc(T) == IF T = {} THEN 0 ELSE LET j == CHOOSE x \in T : TRUE IN recs[j].size + Acc(T \ {j})
                           IN Acc(S)
LowUse(scanned, lu) == 100 * SumSizes(scanned, TRUE) >= lu * (SumSizes(scanned, TRUE) + SumSizes(scanned, FALSE))
RelocOne(acc, rec, fnum, off) ==
  LET old == [off |-> fnum * PriLimit + off, sz |-> rec.size]
      pp  == IF acc.recPos >= PriLimit THEN [f |-> acc.recFile + 1, p |-> 0] ELSE [f |-> acc.recFile, p |-> acc.recPos]
      new == [off |-> PriLimit * pp.f + pp.p, sz |-> rec.size]
      b   == Bucket(rec.k)
      el  == EffListW(acc.inext, b)
      m   == IF el.has THEN Match(el.l, Strip(rec.k)) ELSE 0
      moved == m # 0 /\ el.l[m].loc = old
  IN [pnext |-> Append(acc.pnext, [pos |-> new.off, k |-> rec.k, v |-> rec.v]),
      recFile |-> pp.f, recPos |-> pp.p + 4 + rec.size,
      inext |-> IF moved THEN [acc.inext EXCEPT ![b] = SomeList([el.l EXCEPT ![m].loc = new])] ELSE acc.inext,
      flpool |-> Append(acc.flpool, IF moved THEN old ELSE new)]
Relocate(acc, recs, fnum) ==      \* recs = the file after this pass's merge and truncation
  LET offs == POffsets(recs, 1, 0)
      busy == {j \in 1..Len(recs) : ~recs[j].del}
      last == IF busy = {} THEN 0 ELSE CHOOSE j \in busy : \A x \in busy : x <= j
      prev == IF busy \ {last} = {} THEN 0 ELSE CHOOSE j \in busy \ {last} : \A x \in busy \ {last} : x <= j
      a1   == IF last = 0 THEN acc ELSE RelocOne(acc, recs[last], fnum, offs[last])
  IN IF prev = 0 THEN a1 ELSE RelocOne(a1, recs[prev], fnum, offs[prev])

\* one cycle over the non-current files that are not in `visited`.  The cycle checks its context once after every file it
\* processed (not for files it skips); r = number of checks that still succeed (-1 = no limit): the check after the
\* (r+1)-th processed file fails and the cycle stops there, keeping what it did
RECURSIVE ReapFiles(_, _, _, _, _, _, _)
ReapFiles(files, first, i, vis, lu, acc, r) ==        \* i = index into files of the file being looked at
  IF i >= Len(files) THEN [files |-> files, first |-> first, vis |-> vis, acc |-> acc]
  ELSE LET fnum == first + i - 1 IN
       IF fnum \in vis THEN ReapFiles(files, first, i + 1, vis, lu, acc, r)
       ELSE LET recs2 == Reap(files[i])
                dead  == recs2 = <<>>
                r2    == IF r > 0 THEN r - 1 ELSE r
                one   == IF dead /\ i = 1
                         THEN [files |-> Tail(files), first |-> first + 1, i |-> 1, vis |-> vis \cup {fnum}, acc |-> acc]      \* header advanced, file removed
                         ELSE [files |-> [files EXCEPT ![i] = recs2], first |-> first, i |-> i + 1, vis |-> vis \cup {fnum},
                               acc |-> IF ~dead /\ LowUse(files[i], lu) THEN Relocate(acc, recs2, fnum) ELSE acc]
            IN IF r = 0 THEN [files |-> one.files, first |-> one.first, vis |-> one.vis, acc |-> one.acc]
               ELSE ReapFiles(one.files, one.first, one.i, one.vis, lu, one.acc, r2)

\* A cycle with time limit d.  Reading the .gc file costs one check per entry plus one (only when the file is not empty).  The
\* entries are applied as one batch when the last one has been read: if a check fails before that, nothing has been
\* marked; if the LAST check fails, everything has been marked and the affected files leave `visited` (before repair
\* cb628c7 the set was dropped with the error and those files were never looked at again - found with this model, C11).
\* In both cases the .gc file stays for the next cycle.
PriGCd(lu, d) ==
  /\ Call([op |-> "prigc", lowUse |-> lu, deadline |-> d])
  /\ LET ho     == HandOver
         e      == Len(ho.gc)
         stop1  == d > 0 /\ e > 0 /\ d < e
         stopM  == d > 0 /\ e > 0 /\ d = e
         r      == IF d = 0 THEN -1 ELSE IF e > 0 THEN d - (e + 1) ELSE d
         marked == MarkAll(pfiles, ho.gc)
         vis1   == gcmem.vis \ Affected(pfiles, marked)
         rp     == ReapFiles(marked, pfirst, 1, vis1, lu, [pnext |-> pnext, recFile |-> recFile, recPos |-> recPos, inext |-> inext, flpool |-> flpool], r)
     IN IF stop1
        THEN /\ flfile' = ho.fl /\ flgc' = [has |-> TRUE, l |-> ho.gc]
             /\ UNCHANGED <<pfiles, pfirst, gcmem, plen, pnext, recFile, recPos, inext, flpool>>
        ELSE IF stopM
        THEN /\ flfile' = ho.fl /\ flgc' = [has |-> TRUE, l |-> ho.gc]
             /\ pfiles' = marked /\ gcmem' = [gcmem EXCEPT !.vis = vis1]
             /\ UNCHANGED <<pfirst, plen, pnext, recFile, recPos, inext, flpool>>
        ELSE /\ pfiles' = rp.files /\ pfirst' = rp.first /\ gcmem' = [gcmem EXCEPT !.vis = rp.vis]
             /\ flfile' = ho.fl /\ flgc' = [has |-> FALSE, l |-> <<>>]
             /\ plen' = plen
             /\ pnext' = rp.acc.pnext /\ recFile' = rp.acc.recFile /\ recPos' = rp.acc.recPos
             /\ inext' = rp.acc.inext /\ flpool' = rp.acc.flpool
  /\ UNCHANGED <<kv, bk, ifiles, ifirst, ilen>>
PriGC(lu) == PriGCd(lu, 0)

\* ---------------------------------------------------------------- index GC (one complete cycle)
\* a record is busy iff its bucket points exactly at it
IBusy(rec, fnum, off) == ~rec.del /\ bk[rec.b] = fnum * IdxLimit + off + 4
IMarkFree(recs, fnum) ==
  LET offs == IOffsets(recs, 1, 0) IN
  [j \in 1..Len(recs) |-> IF recs[j].del \/ IBusy(recs[j], fnum, offs[j]) THEN recs[j]
                           ELSE [b |-> 0, ents |-> <<>>, del |-> TRUE, size |-> recs[j].size]]
RECURSIVE IMerge(_)
IMerge(recs) ==
  IF Len(recs) < 2 THEN recs
  ELSE IF recs[1].del /\ recs[2].del
       THEN IMerge(<< [b |-> 0, ents |-> <<>>, del |-> TRUE, size |-> recs[1].size + 4 + recs[2].size] >> \o SubSeq(recs, 3, Len(recs)))
       ELSE <<recs[1]>> \o IMerge(Tail(recs))
IReap(recs, fnum) == LET m == IMerge(IMarkFree(recs, fnum)) IN
                     IF m # <<>> /\ m[Len(m)].del THEN SubSeq(m, 1, Len(m) - 1) ELSE m
IReferenced == {(bk[b] - 4) \div IdxLimit : b \in {x \in Buckets : bk[x] # 0}}
\* truncateFreeFiles: non-current files no bucket refers into: removed while they are the first file, else emptied.  One
\* context check BEFORE each such file; r = checks that still succeed (-1 = no limit); stop = the time limit ended the pass
RECURSIVE ITruncFree(_, _, _, _)
ITruncFree(files, first, i, r) ==
  IF i >= Len(files) THEN [files |-> files, first |-> first, r |-> r, stop |-> FALSE]
  ELSE IF (first + i - 1) \in IReferenced THEN ITruncFree(files, first, i + 1, r)
  ELSE IF r = 0 THEN [files |-> files, first |-> first, r |-> r, stop |-> TRUE]
  ELSE LET r2 == IF r > 0 THEN r - 1 ELSE r IN
       IF i = 1 THEN ITruncFree(Tail(files), first + 1, 1, r2)
       ELSE ITruncFree([files EXCEPT ![i] = <<>>], first, i + 1, r2)
\* the reaping pass (Index.gc): it starts at the first file - or at the file in which the previous cycle was stopped by its
\* time limit - goes up to the current file, wraps around to the first file and ends where it started (or at the current
\* file, if it removed the first file on the way).  Reaping a file costs one context check per record plus one (none for
\* an empty file); when check number r+1 fails the first r records have been marked and merged in place, nothing has
\* been truncated, and the file is remembered as the place to resume.  An emptied file is removed while it is the first.
RECURSIVE IdxLoop(_, _, _, _, _, _)
IdxLoop(files, first, fnum, start, seenFirst, r) ==
  LET last == first + Len(files) - 1
      i    == fnum - first + 1
      recs == files[i]
      need == IF recs = <<>> THEN 0 ELSE Len(recs) + 1
  IN IF r >= 0 /\ need > 0 /\ r < need
     THEN LET mk   == IMarkFree(recs, fnum)
              part == IMerge(SubSeq(mk, 1, r)) \o SubSeq(recs, r + 1, Len(recs))
          IN [files |-> [files EXCEPT ![i] = part], first |-> first, res |-> [has |-> TRUE, at |-> fnum]]
     ELSE LET r2     == IF r < 0 THEN r ELSE r - need
              recs2  == IF recs = <<>> THEN <<>> ELSE IReap(recs, fnum)
              rm     == recs2 = <<>> /\ fnum = first
              files2 == IF rm THEN Tail(files) ELSE [files EXCEPT ![i] = recs2]
              first2 == IF rm THEN first + 1 ELSE first
              seen2  == seenFirst \/ rm
              n1     == fnum + 1
              n2     == IF n1 = last THEN (IF seen2 THEN -1 ELSE first2) ELSE n1
          IN IF n2 = -1 \/ n2 = start THEN [files |-> files2, first |-> first2, res |-> NoRes]
             ELSE IdxLoop(files2, first2, n2, start, seen2, r2)

IdxGCd(scanFree, d) ==
  /\ Call([op |-> "idxgc", scanFree |-> scanFree, deadline |-> d])
  /\ LET a     == IF scanFree THEN ITruncFree(ifiles, ifirst, 1, IF d = 0 THEN -1 ELSE d)
                   ELSE [files |-> ifiles, first |-> ifirst, r |-> IF d = 0 THEN -1 ELSE d, stop |-> FALSE]
         start == IF gcmem.ires.has THEN gcmem.ires.at ELSE a.first
     IN IF a.stop                                   \* the free-file scan ran out of time: the resume point stays
        THEN ifiles' = a.files /\ ifirst' = a.first /\ UNCHANGED gcmem
        ELSE IF Len(a.files) = 1                    \* no file but the current one
        THEN ifiles' = a.files /\ ifirst' = a.first /\ UNCHANGED gcmem
        ELSE IF start < a.first                     \* the file to resume in is gone: the cycle fails at once, the resume point is forgotten
        THEN ifiles' = a.files /\ ifirst' = a.first /\ gcmem' = [gcmem EXCEPT !.ires = NoRes]
        ELSE LET b == IdxLoop(a.files, a.first, start, start, FALSE, a.r)
             IN ifiles' = b.files /\ ifirst' = b.first /\ gcmem' = [gcmem EXCEPT !.ires = b.res]
  /\ UNCHANGED <<kv, bk, inext, ilen, pnext, pfiles, pfirst, plen, recFile, recPos, flpool, flfile, flgc>>
IdxGC(scanFree) == IdxGCd(scanFree, 0)

Next == \/ (\E k \in Keys, v \in Vals : Put(k, v)) \/ (\E k \in Keys : Remove(k)) \/ Flush
        \/ (WithGC /\ ((\E lu \in LowUses, d \in Deadlines : PriGCd(lu, d)) \/ \E sf \in BOOLEAN, d \in IDeadlines : IdxGCd(sf, d)))
Spec == Init /\ [][Next]_vars

\* ---------------------------------------------------------------- properties
Refines == Contents = kv                                   \* C01 for this mechanism
\* the location Put predicted is the location Flush writes: after a flush every index entry names a record start
PredictedPositionsExact ==
  (pnext = <<>> /\ Dirty = {}) =>
     \A b \in Buckets : bk[b] # 0 =>
        \A i \in 1..Len(DiskList(b).l) : PriLookup(DiskList(b).l[i].loc.off).found
\* C02 (both recovery paths): the bucket table a rescan of the index files rebuilds - every file from the first one,
\* records in order, deleted ones skipped, a later record of a bucket wins - is the live table whenever nothing is unflushed
RECURSIVE ScanRecs(_, _, _, _, _)
ScanRecs(recs, j, off, fnum, t) ==
  IF j > Len(recs) THEN t
  ELSE ScanRecs(recs, j + 1, off + IRecSize(recs[j]), fnum,
                IF recs[j].del THEN t ELSE [t EXCEPT ![recs[j].b] = fnum * IdxLimit + off + 4])
RECURSIVE ScanFiles(_, _)
ScanFiles(i, t) == IF i > Len(ifiles) THEN t ELSE ScanFiles(i + 1, ScanRecs(ifiles[i], 1, 0, ifirst + i - 1, t))
RescanTable == ScanFiles(1, [b \in Buckets |-> 0])
SnapshotEqualsRescan == (pnext = <<>> /\ Dirty = {}) => RescanTable = bk

\* C13 (sequential): the freelist holds exactly the superseded locations, once each
FreedOnce == \A i, j \in 1..Len(flfile \o flpool) : i # j => (flfile \o flpool)[i] # (flfile \o flpool)[j]
\* C04 for this mechanism: a GC cycle never changes the contents
GcKeepsContents == [][hist'[Len(hist')].op \in {"prigc", "idxgc"} => Contents' = Contents]_vars
=======================================================================
