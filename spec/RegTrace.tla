------------------------------ MODULE RegTrace ------------------------------
(* C05 / C06, free-running histories.  Every key has a single writer that     *)
(* issues versions 1, 2, 3, ... (a version is either a value or a removal);   *)
(* events are in the order of stamps from one atomic counter taken before a   *)
(* call and after it returned.  For single-writer keys linearizability is     *)
(* equivalent to the atomic-register conditions, which are linear to check:   *)
(*   a read returns a version v with  lo <= v <= hi  where                    *)
(*     lo = the newest version whose write had RETURNED, or that an earlier   *)
(*          read had already RETURNED, when the read was invoked              *)
(*          (no stale read, no new-old inversion),                            *)
(*     hi = the newest version whose write had been INVOKED when the read     *)
(*          returned (nothing from the future);                               *)
(*   absent is returned only if some version in lo..hi is a removal (or 0);   *)
(*   never bytes that are not a version of that key, never an error;          *)
(*   the final contents are the last acknowledged version of every key,       *)
(*   before and after Close + reopen.                                         *)
EXTENDS TraceLib

VARIABLES l, started, done, seen, isrem, low
\* started/done/seen : key -> version;  isrem : key -> set of versions that are removals
\* low : read id -> version floor recorded at its invocation
vars == <<l, started, done, seen, isrem, low>>

Init == l = 1 /\ started = <<>> /\ done = <<>> /\ seen = <<>> /\ isrem = <<>> /\ low = <<>> /\ RegInit

Max2(a, b) == IF a > b THEN a ELSE b
K(e) == e.k + 1
RemOrZero(k, n) == n = 0 \/ n \in isrem[k]

Rules(e) ==
     (IF e.e = "wres" /\ e.err # "" THEN {"write-failed"} ELSE {})
  \cup (IF e.e = "rres" /\ e.err # "" THEN {"read-failed"} ELSE {})
  \cup (IF e.e = "rres" /\ e.err = "" /\ e.got = -2 THEN {"foreign-bytes"} ELSE {})
  \cup (IF e.e = "rres" /\ e.err = "" /\ e.got >= 0 /\ e.got < low[e.id] THEN {"stale-read"} ELSE {})
  \cup (IF e.e = "rres" /\ e.err = "" /\ e.got >= 0 /\ e.got > started[K(e)] THEN {"read-from-the-future"} ELSE {})
  \cup (IF e.e = "rres" /\ e.err = "" /\ e.got >= 0 /\ e.got \in isrem[K(e)] THEN {"removed-version-read"} ELSE {})
  \cup (IF e.e = "rres" /\ e.err = "" /\ e.got = -1 /\ ~(\E n \in low[e.id]..started[K(e)] : RemOrZero(K(e), n)) THEN {"present-key-read-absent"} ELSE {})
  \cup (IF e.e = "final" /\ (Len(e.errs) > 0 \/ e.cerr # "" \/ e.oerr # "") THEN {"final-read-or-reopen-failed"} ELSE {})
  \cup (IF e.e = "final" /\ (\E k \in 1..Len(e.f1) :
            LET want == IF RemOrZero(k, done[k]) THEN -1 ELSE done[k] IN
            started[k] = done[k] /\ (e.f1[k] # want \/ (Len(e.f2) = Len(e.f1) /\ e.f2[k] # want)))
        THEN {"final-contents"} ELSE {})

Next ==
  /\ l <= Len(Trace)
  /\ LET e == Trace[l] IN
       /\ Flag(e, IF e.e = "reset" THEN {} ELSE Rules(e))
       /\ IF e.e = "reset"
          THEN /\ started' = [k \in 1..e.nk |-> 0] /\ done' = [k \in 1..e.nk |-> 0] /\ seen' = [k \in 1..e.nk |-> 0]
               /\ isrem' = [k \in 1..e.nk |-> {}] /\ low' = <<>>
          ELSE /\ started' = (IF e.e = "winv" THEN [started EXCEPT ![K(e)] = e.ver] ELSE started)
               /\ isrem' = (IF e.e = "winv" /\ e.rem THEN [isrem EXCEPT ![K(e)] = @ \cup {e.ver}] ELSE isrem)
               /\ done' = (IF e.e = "wres" /\ e.err = "" THEN [done EXCEPT ![K(e)] = e.ver] ELSE done)
               /\ seen' = (IF e.e = "rres" /\ e.err = "" /\ e.got >= 0 THEN [seen EXCEPT ![K(e)] = Max2(@, e.got)] ELSE seen)
               /\ low' = (IF e.e = "rinv" THEN [i \in DOMAIN low \cup {e.id} |-> IF i = e.id THEN Max2(done[K(e)], seen[K(e)]) ELSE low[i]]
                          ELSE IF e.e = "rres" THEN [i \in DOMAIN low \ {e.id} |-> low[i]]
                          ELSE low)
  /\ Consumed(l)
  /\ l' = l + 1

Spec == Init /\ [][Next]_vars
=======================================================================
