SPECIFICATION TSpec
CONSTANTS
  Keys <- MCKeys
POSTCONDITION Post
CHECK_DEADLOCK FALSE
