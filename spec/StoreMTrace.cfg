SPECIFICATION TSpec
CONSTANTS
  Keys <- MCKeys
  CommitOrder = "pif"
  Faults = {}
POSTCONDITION Post
CHECK_DEADLOCK FALSE
