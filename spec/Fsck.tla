------------------------------ MODULE Fsck ------------------------------
(* C07 (F1-F5) and the file-level form of C13 (F7): mutual consistency of  *)
(* the on-disk structures, as pure predicates over a PROJECTION of a store  *)
(* directory.  The projection is produced by an independent reader of the   *)
(* file formats (harness/internal/fsckread) and has the shape               *)
(*   ih  = [ok, bits, limit, first, pfs]      index header                  *)
(*   ph  = [ok, limit, first]                 primary header                *)
(*   if  = << [n, size, tail, recs: << [off, size, del, b, pos, bad,        *)
(*                                       ents: << [p, off, sz] >>] >>] >>   *)
(*   pf  = << [n, size, tail, recs: << [off, size, del, pos, dig, vlen,     *)
(*                                       bad] >>] >>                        *)
(*   fl, gc = << <<off, size>> >>             freelist / freelist.gc        *)
(* bk is the bucket table as << <<bucket, pos>> >> (non-empty buckets).     *)
(* Each predicate returns the set of rule names it finds violated, so the   *)
(* same text serves as invariant of the model and as trace monitor.         *)
EXTENDS Bytes, FiniteSets

Pow2(n) == 2 ^ n
\* little-endian 32-bit prefix of the digest masked to `bits` bits (TLC integers are 32-bit,
\* so the fourth byte is reduced before it is scaled)
BucketOf(dig, bits) == (dig[1] + 256 * dig[2] + 65536 * dig[3]
                        + 16777216 * (dig[4] % Pow2(Max(bits - 24, 0)))) % Pow2(bits)
Stripped(dig, bits) == Drop(dig, bits \div 8)

IdxRecs(P) == UNION {{[f |-> P.if[i].n, r |-> P.if[i].recs[j]] : j \in 1..Len(P.if[i].recs)} : i \in 1..Len(P.if)}
PriRecs(P) == UNION {{[f |-> P.pf[i].n, r |-> P.pf[i].recs[j]] : j \in 1..Len(P.pf[i].recs)} : i \in 1..Len(P.pf)}

\* the record a bucket position names, if any
IdxAt(P, pos) == {x \in IdxRecs(P) : x.r.pos = pos}
PriAt(P, pos) == {x \in PriRecs(P) : x.r.pos = pos}

LiveLists(P, bk) == {x \in IdxRecs(P) : \E i \in 1..Len(bk) : bk[i][2] = x.r.pos}
LiveEntries(P, bk) == UNION {{x.r.ents[j] : j \in 1..Len(x.r.ents)} : x \in LiveLists(P, bk)}
FreeSeq(P) == P.fl \o P.gc

F1(P, bk) ==
  \* every non-empty bucket points at a complete, non-deleted record list tagged with
  \* that bucket in an existing index file that is not older than FirstFile
  IF \A i \in 1..Len(bk) :
       \E x \in IdxAt(P, bk[i][2]) : ~x.r.del /\ x.r.b = bk[i][1] /\ x.r.bad = "" /\ x.f >= P.ih.first
  THEN {} ELSE {"F1-bucket-points-at-bad-record"}

F2(P, bk) ==
  \* every entry points at a complete, non-deleted primary record of the recorded size whose
  \* key carries the bucket bits and the entry's stored prefix
  IF \A x \in LiveLists(P, bk) : \A j \in 1..Len(x.r.ents) :
       LET en == x.r.ents[j] IN
       \E y \in PriAt(P, en.off) :
          /\ ~y.r.del /\ y.r.bad = "" /\ y.r.size = en.sz /\ y.f >= P.ph.first
          /\ Len(y.r.dig) >= 4
          /\ BucketOf(y.r.dig, P.ih.bits) = x.r.b
          /\ IsPrefix(en.p, Stripped(y.r.dig, P.ih.bits))
  THEN {} ELSE {"F2-entry-points-at-bad-primary-record"}

F3(P, bk) ==
  \* entries sorted, pairwise prefix-free, distinct locations
  IF \A x \in LiveLists(P, bk) :
       LET E == x.r.ents IN
       /\ \A j \in 1..(Len(E) - 1) : Greater(E[j + 1].p, E[j].p)
       /\ \A a, b \in 1..Len(E) : a # b => (~IsPrefix(E[a].p, E[b].p) /\ E[a].off # E[b].off)
  THEN {} ELSE {"F3-record-list-order"}

F4(P, bk) ==
  \* no location on the freelist (file or .gc) is named by a live entry
  IF \A en \in LiveEntries(P, bk) : \A i \in 1..Len(FreeSeq(P)) : FreeSeq(P)[i][1] # en.off
  THEN {} ELSE {"F4-live-location-on-freelist"}

F5(P, bk) ==
  \* header first-file numbers never exceed the oldest file still referenced
     (IF \A x \in LiveLists(P, bk) : P.ih.first <= x.f THEN {} ELSE {"F5-index-firstfile"})
  \cup (IF \A en \in LiveEntries(P, bk) : \A y \in PriAt(P, en.off) : P.ph.first <= y.f THEN {} ELSE {"F5-primary-firstfile"})
  \cup (IF P.ih.ok /\ P.ph.ok THEN {} ELSE {"F5-header-unreadable"})

\* C13, file level: the freelist entries (file + .gc) whose record is still unmarked are,
\* as a multiset, exactly the primary records that are neither marked deleted nor named by
\* a live entry: nothing lost, nothing twice, nothing that is still current.
Pending(P) == {i \in 1..Len(FreeSeq(P)) : \E y \in PriAt(P, FreeSeq(P)[i][1]) : ~y.r.del /\ y.f >= P.ph.first}
Orphans(P, bk) == {y \in PriRecs(P) : ~y.r.del /\ y.f >= P.ph.first /\ \A en \in LiveEntries(P, bk) : en.off # y.r.pos}
F7(P, bk) ==
     (IF \A i, j \in Pending(P) : i # j => FreeSeq(P)[i][1] # FreeSeq(P)[j][1] THEN {} ELSE {"F7-location-freed-twice"})
  \cup (IF \A y \in Orphans(P, bk) : \E i \in Pending(P) : FreeSeq(P)[i][1] = y.r.pos /\ FreeSeq(P)[i][2] = y.r.size
        THEN {} ELSE {"F7-superseded-location-not-freed"})
  \cup (IF \A i \in Pending(P) : \E y \in Orphans(P, bk) : FreeSeq(P)[i][1] = y.r.pos
        THEN {} ELSE {"F7-current-location-freed"})

C07Rules(P, bk) == F1(P, bk) \cup F2(P, bk) \cup F3(P, bk) \cup F4(P, bk) \cup F5(P, bk)
C13Rules(P, bk) == F7(P, bk) \cup F4(P, bk)
=======================================================================
