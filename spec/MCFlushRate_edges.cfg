SPECIFICATION Spec
PROPERTIES EmitEdges
INVARIANTS TypeOK
VIEW View
CHECK_DEADLOCK FALSE
