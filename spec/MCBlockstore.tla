------------------------- MODULE MCBlockstore -------------------------
EXTENDS Blockstore, Json
EmitInv   == PrintT(<<"SCN", ToJson([ops |-> hist])>>)
EmitEdges == [][PrintT(<<"SCN", ToJson([ops |-> hist'])>>)]_vars
=======================================================================
