-------------------------- MODULE MCFileCache --------------------------
EXTENDS FileCache, Json
\* one scenario per distinct state; the model's expectation of which handles are
\* open travels with it (conformance figure only)
EmitInv == PrintT(<<"SCN", ToJson([ops |-> hist,
                                   open |-> [h \in H |-> status[h] = "open"],
                                   panicked |-> panicked])>>)
\* one scenario per TRANSITION of the state graph (implied actions are evaluated for
\* every explored step, also those that lead to a state seen before)
EmitEdges == [][PrintT(<<"SCN", ToJson([ops |-> hist', open |-> [h \in H |-> status'[h] = "open"],
                                        panicked |-> panicked'])>>)]_vars
=======================================================================
