----------------------------- MODULE C11Trace -----------------------------
(* C11, I->S binding: garbage collection actually reclaims space, in       *)
(* bounded cycles.  Evaluated on traces of the sequential engine that log,  *)
(* after every call, the reported StorageSize and, at quiescent points, the *)
(* projection of the real files and the live bucket table.                  *)
(*                                                                          *)
(*  P-dead   a non-current primary file into which no live index entry      *)
(*           points (and that state is flushed) has length 0 or is gone     *)
(*           after at most BoundDead completed primary GC cycles;           *)
(*  I-dead   a non-current index file into which no bucket points has       *)
(*           length 0 or is gone after at most BoundDead index GC cycles;   *)
(*  drain    with low-use threshold 0 every primary file that was           *)
(*           non-current when the drain phase began is released within      *)
(*           ceil(live records / 2) + BoundDrain cycles (2 records are      *)
(*           relocated per cycle, one more cycle marks the last ones);      *)
(*  oldest   a non-current file that a completed cycle emptied (it had bytes  *)
(*           before the cycle and none after) and that is then the oldest   *)
(*           file present was the oldest when it was visited (files are     *)
(*           visited in ascending order) and must have been unlinked, not   *)
(*           left as a 0-byte file;                                         *)
(*  limited  when keys are removed one at a time, each removal flushed and    *)
(*           followed by a cycle whose time limit lets it finish exactly    *)
(*           one file, every file that has become dead by the end has been  *)
(*           released (one file is unvisited at each cycle: the affected);  *)
(*  growth   a GC cycle never increases the reported storage (16 bytes of   *)
(*           slack for a header whose first-file number gains a digit;      *)
(*           relocated records are not on disk before the next flush);      *)
(*  written  a complete primary GC cycle (no time limit) that starts from a  *)
(*           flushed store appends nothing to the primary but the records   *)
(*           it relocates: at the next flush every unmarked record that     *)
(*           lies behind the end the primary had before the cycle is named  *)
(*           by a live index entry (the sharp form of "never increases the  *)
(*           storage except by the records it relocates": a relocation that *)
(*           is refused and thrown away leaves an unreferenced copy);       *)
(*  fixed    once two consecutive idle rounds (primary GC, index GC, flush) *)
(*           leave the directory unchanged, every later round does too and  *)
(*           no file except the re-created empty freelist is touched.       *)
EXTENDS TraceLib, Fsck

BoundDead == 2
BoundDrain == 3

VARIABLES l, pdead, idead, drain, prevSS, prevSz, gcw
\* gcw: [on, n, sz, clean]: on = only GC cycles ran since the flushed point at which the primary ended in file n at size sz;
\*      clean = the previous event was a flush or reopen that logged the projection (everything is on disk)
\* prevSz: [p, i] file number -> size at the previous quiescent point (<<>> when unknown)
\* pdead / idead: file number -> completed cycles survived while dead
\* drain: file number -> [left |-> cycles left] for files being drained (threshold 0 phase)
vars == <<l, pdead, idead, drain, prevSS, prevSz, gcw>>

Init == l = 1 /\ pdead = <<>> /\ idead = <<>> /\ drain = <<>> /\ prevSS = -1 /\ prevSz = [p |-> <<>>, i |-> <<>>]
        /\ gcw = [on |-> FALSE, n |-> 0, sz |-> 0, clean |-> FALSE] /\ RegInit

MaxN(files) == IF Len(files) = 0 THEN -1 ELSE files[Len(files)].n
FileOfPri(P, off) == off \div P.ph.limit
FileOfIdx(P, pos) == (pos - 4) \div P.ih.limit
\* "released" = every byte given back: length 0 or unlinked.  (An emptied file is unlinked only
\* if it is the oldest file when it is visited; empty files that become the oldest later stay
\* around as 0-byte files - the property accepts that, so the rule does too.)
PriSize(P, n) == IF \E i \in 1..Len(P.pf) : P.pf[i].n = n
                 THEN (CHOOSE f \in RangeOf(P.pf) : f.n = n).size ELSE 0
IdxSize(P, n) == IF \E i \in 1..Len(P.if) : P.if[i].n = n
                 THEN (CHOOSE f \in RangeOf(P.if) : f.n = n).size ELSE 0
RefPri(P, bk) == {FileOfPri(P, en.off) : en \in LiveEntries(P, bk)}
RefIdx(P, bk) == {FileOfIdx(P, bk[i][2]) : i \in 1..Len(bk)}
DeadPri(P, bk) == {P.pf[i].n : i \in 1..Len(P.pf)} \ (RefPri(P, bk) \cup {MaxN(P.pf)})
DeadIdx(P, bk) == {P.if[i].n : i \in 1..Len(P.if)} \ (RefIdx(P, bk) \cup {MaxN(P.if)})
LiveIn(P, bk, n) == Cardinality({en \in LiveEntries(P, bk) : FileOfPri(P, en.off) = n})

Bump(cnt, dead, sizeOf) ==  \* one more completed cycle for files that were dead before it
  [n \in {m \in DOMAIN cnt : sizeOf[m] > 0} |-> cnt[n] + 1]

Sizes(files) == [n \in {files[j].n : j \in 1..Len(files)} |-> (CHOOSE f \in RangeOf(files) : f.n = n).size]
MinN(files) == files[1].n
\* emptied by this cycle, still present with 0 bytes, non-current and the oldest file present
EmptiedOldestStays(files, before) ==
  /\ Len(files) > 1
  /\ files[1].size = 0
  /\ files[1].n \in DOMAIN before /\ before[files[1].n] > 0
MaxDom(f) == CHOOSE x \in DOMAIN f : \A y \in DOMAIN f : y <= x
\* unmarked primary records behind (n, sz) that no live entry names
Unreferenced(P, bk, n, sz) ==
  {y \in PriRecs(P) : ~y.r.del /\ (y.f > n \/ (y.f = n /\ y.r.off >= sz)) /\ \A en \in LiveEntries(P, bk) : en.off # y.r.pos}
HasSt(e) == "st" \in DOMAIN e /\ "readerr" \notin DOMAIN e.st
Completed(e) == e.gcerr = "" /\ e.panic = ""

Rules(e) ==
     (IF e.e = "prigc" /\ Completed(e) /\ HasSt(e)
         /\ (\E n \in DOMAIN pdead : pdead[n] + 1 > BoundDead /\ PriSize(e.st, n) > 0)
      THEN {"dead-primary-file-not-released"} ELSE {})
  \cup (IF e.e = "idxgc" /\ Completed(e) /\ HasSt(e)
         /\ (\E n \in DOMAIN idead : idead[n] + 1 > BoundDead /\ IdxSize(e.st, n) > 0)
      THEN {"dead-index-file-not-released"} ELSE {})
  \cup (IF e.e = "prigc" /\ Completed(e) /\ HasSt(e) /\ e.lowUse = 0
         /\ (\E n \in DOMAIN drain : drain[n] - 1 < 0 /\ PriSize(e.st, n) > 0)
      THEN {"low-use-file-not-drained"} ELSE {})
  \cup (IF e.e = "prigc" /\ Completed(e) /\ HasSt(e) /\ EmptiedOldestStays(e.st.pf, prevSz.p)
      THEN {"emptied-oldest-primary-file-not-unlinked"} ELSE {})
  \cup (IF e.e = "idxgc" /\ Completed(e) /\ HasSt(e) /\ EmptiedOldestStays(e.st.if, prevSz.i)
      THEN {"emptied-oldest-index-file-not-unlinked"} ELSE {})
  \cup (IF e.e = "flush" /\ "mark" \in DOMAIN e /\ e.mark = "limitedend" /\ HasSt(e)
         /\ (\E n \in DeadPri(e.st, e.bk) : PriSize(e.st, n) > 0)
      THEN {"dead-primary-file-not-released-by-time-limited-cycles"} ELSE {})
  \cup (IF e.e \in {"prigc", "idxgc"} /\ "ss" \in DOMAIN e /\ prevSS >= 0 /\ e.sserr = "" /\ e.ss > prevSS + 16
      THEN {"gc-increased-storage"} ELSE {})
  \cup (IF e.e = "flush" /\ HasSt(e) /\ gcw.on /\ Unreferenced(e.st, e.bk, gcw.n, gcw.sz) # {}
      THEN {"gc-wrote-unreferenced-record"} ELSE {})
  \cup (IF e.e = "gcfix" /\ e.panic = ""
         /\ (\E i \in 1..(Len(e.rounds) - 1) : e.rounds[i].dg = e.rounds[i + 1].dg
               /\ \E j \in (i + 1)..Len(e.rounds) : e.rounds[j].dg # e.rounds[i].dg \/ (j > i + 1 /\ e.rounds[j].mt # e.rounds[i + 1].mt))
      THEN {"no-fixed-point"} ELSE {})

Next ==
  /\ l <= Len(Trace)
  /\ LET e == Trace[l] IN
       /\ Flag(e, IF e.e = "reset" THEN {} ELSE Rules(e))
       /\ prevSS' = (IF e.e = "reset" THEN -1 ELSE IF "ss" \in DOMAIN e /\ e.sserr = "" THEN e.ss ELSE prevSS)
       /\ prevSz' = (IF e.e = "reset" THEN [p |-> <<>>, i |-> <<>>]
                     ELSE IF HasSt(e) THEN [p |-> Sizes(e.st.pf), i |-> Sizes(e.st.if)] ELSE prevSz)
       /\ gcw' = (IF e.e = "prigc" /\ Completed(e) /\ HasSt(e) /\ e.deadline = 0 /\ gcw.clean /\ DOMAIN prevSz.p # {}
                  THEN [on |-> TRUE, n |-> MaxDom(prevSz.p), sz |-> prevSz.p[MaxDom(prevSz.p)], clean |-> FALSE]
                  ELSE IF e.e \in {"prigc", "idxgc"} /\ Completed(e) /\ HasSt(e) /\ gcw.on /\ (e.e = "idxgc" \/ e.deadline = 0)
                  THEN [gcw EXCEPT !.clean = FALSE]
                  ELSE [on |-> FALSE, n |-> 0, sz |-> 0, clean |-> (e.e \in {"flush", "reopen"} /\ HasSt(e))])
       /\ IF e.e = "reset" \/ e.e = "reopen" \/ e.e = "openwrong"
          THEN pdead' = <<>> /\ idead' = <<>> /\ drain' = <<>>
          ELSE IF ~HasSt(e) THEN UNCHANGED <<pdead, idead, drain>>
          ELSE LET P  == e.st
                   dp == DeadPri(P, e.bk)
                   di == DeadIdx(P, e.bk)
                   p1 == IF e.e = "prigc" /\ Completed(e)
                         THEN [n \in {m \in DOMAIN pdead : PriSize(P, m) > 0} |-> pdead[n] + 1] ELSE pdead
                   i1 == IF e.e = "idxgc" /\ Completed(e)
                         THEN [n \in {m \in DOMAIN idead : IdxSize(P, m) > 0} |-> idead[n] + 1] ELSE idead
                   d1 == IF e.e = "prigc" /\ Completed(e) /\ e.lowUse = 0
                         THEN [n \in {m \in DOMAIN drain : PriSize(P, m) > 0} |-> drain[n] - 1] ELSE drain
               IN /\ pdead' = [n \in {m \in dp : PriSize(P, m) > 0} |-> IF n \in DOMAIN p1 THEN p1[n] ELSE 0]
                  /\ idead' = [n \in {m \in di : IdxSize(P, m) > 0} |-> IF n \in DOMAIN i1 THEN i1[n] ELSE 0]
                  \* the drain phase begins at the "flush" that precedes the first threshold-0 cycle (marked drainstart)
                  /\ drain' = (IF e.e = "flush" /\ "mark" \in DOMAIN e /\ e.mark = "drainstart"
                               THEN [n \in {P.pf[i].n : i \in 1..Len(P.pf)} \ {MaxN(P.pf)} |->
                                       ((LiveIn(P, e.bk, n) + 1) \div 2) + BoundDrain]
                               ELSE d1)
  /\ Consumed(l)
  /\ l' = l + 1

Spec == Init /\ [][Next]_vars
=======================================================================
