------------------------------ MODULE MCStore ------------------------------
EXTENDS Store, Json
K1 == <<1, 7, 7, 0, 9, 0, 3, 3>>
K2 == <<1, 7, 7, 0, 9, 0, 3, 4>>
K3 == <<2, 7, 7, 0, 9, 0, 3, 3>>
MCKeys == {K1, K2, K3}
KeyNo(k) == IF k = K1 THEN 1 ELSE IF k = K2 THEN 2 ELSE 3
\* one scenario per transition of the mechanism's state graph (ops use key numbers / value lengths)
Ops(h) == [i \in 1..Len(h) |-> IF h[i].op = "flush" THEN [op |-> "flush"]
                               ELSE IF h[i].op = "prigc" THEN [op |-> "prigc", lowUse |-> h[i].lowUse, deadline |-> h[i].deadline]
                               ELSE IF h[i].op = "idxgc" THEN [op |-> "idxgc", scanFree |-> h[i].scanFree, deadline |-> h[i].deadline]
                               ELSE IF h[i].op = "rem" THEN [op |-> "rem", k |-> KeyNo(h[i].k)]
                               ELSE [op |-> "put", k |-> KeyNo(h[i].k), vlen |-> h[i].v]]
EmitEdges == [][PrintT(<<"SCN", ToJson([ops |-> Ops(hist')])>>)]_vars
=======================================================================
