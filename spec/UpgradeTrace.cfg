SPECIFICATION TSpec
CONSTANTS
  IdxFiles <- TraceIdxFiles
  NeedRemap <- TraceNeedRemap
  Lost = {}
  ResumeRename = TRUE
  LeftoverRemoved = TRUE
  MaxCrashes = 0
INVARIANT NotAccepted
CHECK_DEADLOCK FALSE
