------------------------------ MODULE MCUpgrade ------------------------------
EXTENDS Upgrade, Json
\* one behaviour per transition (the sequence of protocol steps, with crashes and restarts)
EmitEdges == [][PrintT(<<"SCN", ToJson([steps |-> sched'])>>)]_vars
=======================================================================
