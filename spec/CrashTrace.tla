----------------------------- MODULE CrashTrace -----------------------------
(* C03 / C09 (interrupted re-bucketing) / C10 (interrupted upgrade), I->S.    *)
(* Trace of the crash engine: "op" events = the calls of the traced child in  *)
(* completion order with their acknowledgements; "crashcase" events = one     *)
(* reconstructed directory image each (after file-system call `fsop`, with    *)
(* the first `cut` bytes of a torn write), the number of calls completed      *)
(* before it, the call in flight, and what the REAL OpenStore and Get of      *)
(* every key returned on that image.  The rule is Durable.tla.                *)
EXTENDS TraceLib, Durable

VARIABLES l, S, snap, cfg
\* snap: completed-call index -> S after it (-2 / -1: before / after the initial open)
vars == <<l, S, snap, cfg>>

Init == l = 1 /\ S = [cur |-> <<>>, dur |-> <<>>, since |-> <<>>] /\ snap = <<>> /\ cfg = [nk |-> 0] /\ RegInit

Empt(c) == {v \in 1..Len(c.vlens) : c.vlens[v] = 0}
MinOf(X) == CHOOSE x \in X : \A y \in X : x <= y
Norm(c, v) == IF v \in Empt(c) THEN MinOf(Empt(c)) ELSE v
NormObs(c, o) == IF o > 0 THEN Norm(c, o) ELSE o

Translating(e) == e.inflight.op = "reopen" /\ e.inflight.bits # 0 /\ e.closed

CaseRules(e) ==
  LET B == snap[e.done] IN
  IF e.panic # "" THEN {"recovery-panics"}
  ELSE IF cfg.mode = "upgrade" /\ e.done < 0
       THEN (IF e.open # "" THEN {"upgrade-open-failed-after-interruption"}
             ELSE (IF \E k \in 1..cfg.nk : NormObs(cfg, e.obs[k]) # B.dur[k] THEN {"upgrade-not-resumed-with-same-contents"} ELSE {})
                  \cup (IF Len(e.legacyLeft) > 0 THEN {"legacy-file-left-after-resumed-upgrade"} ELSE {}))
  ELSE IF cfg.mode = "rebucket" /\ Translating(e)
       THEN (IF e.open = "" /\ (\E k \in 1..cfg.nk : NormObs(cfg, e.obs[k]) # B.cur[k]) THEN {"interrupted-rebucketing-lost-keys"} ELSE {})
  ELSE IF e.open # "" THEN {"open-failed-after-crash"}
  ELSE UNION {
         LET o == NormObs(cfg, e.obs[k])
             infl == [op |-> e.inflight.op, k |-> e.inflight.k, v |-> IF e.inflight.v > 0 THEN Norm(cfg, e.inflight.v) ELSE 0]
         IN IF o = -3 THEN {"read-error-after-crash"}
            ELSE IF o = -2 THEN {"foreign-bytes-after-crash"}
            ELSE IF o \in Allowed(B, k, infl) THEN {}
            ELSE IF o = 0 THEN {"flushed-key-lost"} ELSE {"value-never-acknowledged-or-overwritten-before-flush"}
         : k \in 1..cfg.nk }

Next ==
  /\ l <= Len(Trace)
  /\ LET e == Trace[l] IN
       IF e.e = "reset"
       THEN LET S0 == [cur |-> [k \in 1..e.nk |-> IF e.legacy THEN NormObs(e, e.lkv[k]) ELSE 0],
                       dur |-> [k \in 1..e.nk |-> IF e.legacy THEN NormObs(e, e.lkv[k]) ELSE 0],
                       since |-> [k \in 1..e.nk |-> {}]]
            IN /\ cfg' = e /\ S' = S0
               /\ snap' = [i \in {-2, -1} |-> S0]
       ELSE IF e.e = "op"
       THEN LET S1 == IF e.idx >= 0 /\ (e.r = "" \/ e.op \in {"idxgc", "prigc", "get"})
                      THEN Acked(S, e.op, e.k, IF e.v > 0 THEN Norm(cfg, e.v) ELSE 0, cfg.imm) ELSE S
            IN /\ Flag(e, IF e.r # "" /\ e.r # "exists" THEN {"call-failed-in-traced-run"} ELSE {})
               /\ S' = S1
               /\ snap' = [i \in DOMAIN snap \cup {e.idx} |-> IF i = e.idx THEN S1 ELSE snap[i]]
               /\ UNCHANGED cfg
       ELSE /\ Flag(e, IF e.e = "crashcase" THEN CaseRules(e) ELSE {})
            /\ UNCHANGED <<S, snap, cfg>>
  /\ Consumed(l)
  /\ l' = l + 1

Spec == Init /\ [][Next]_vars
=======================================================================
