----------------------------- MODULE StoreConc -----------------------------
(* C05.  Foreground calls as the separate critical sections of store.go,    *)
(* interleaved with each other and with the flush pipeline.  One action per  *)
(* segment between two yield points of the code (build tag verif):           *)
(*                                                                            *)
(*  client   L1  start .. idx.get.afterBucketInfo   bucket info under RLock   *)
(*           L2  .. put|rem|get.afterIdxGet          record list read, lookup  *)
(*           W1  .. put.afterPriPut | rem.afterIdxRemove | return (get)        *)
(*               primary read + full-key compare (+ primary.Put | index.Remove)*)
(*           W2  .. put.afterIdxPut | put.afterIdxUpdate   index write         *)
(*           W3  .. return                             freelist.Put            *)
(*  flusher  PS  .. pri.flush.afterSwap     primary pool swap                  *)
(*           PW  .. commit.afterPrimary     primary records written            *)
(*           IS  .. idx.flush.afterSwap     index pool swap                    *)
(*           IW  .. idx.flush.afterWrite    record lists appended              *)
(*           BC  .. commit.afterIndex       bucket table updated               *)
(*           FF  .. return                   freelist flushed                  *)
(*                                                                            *)
(* Keys KA and KB fall in one bucket and share a prefix, so the record-list   *)
(* imprecision (a lookup or Update hitting the other key's entry) is modelled *)
(* with the real insertion rule (RLOps).  The primary is abstract: a location *)
(* is readable from the moment primary.Put returned.                          *)
(*                                                                            *)
(* Known design-level defect kept in the model (known finding                 *)
(* KF-C05-same-key-writers, see KnownRace below); AllowUpdateVsRemove = FALSE  *)
(* keeps the programs that fire it out of the bulk exploration.               *)
EXTENDS RLOps, FiniteSets, TLC

CONSTANTS Threads,      \* e.g. {"t1", "t2"}
          InitPresent,  \* subset of {"A", "B"} present (value 1, flushed) initially
          Immutable,
          WithFlusher,  \* TRUE: one commit runs concurrently
          AllowUpdateVsRemove   \* FALSE in bulk exploration (known finding), TRUE to exhibit it

KA == <<7, 0>>
KB == <<7, 1>>
KeyOf(n) == IF n = "A" THEN KA ELSE KB
Names == {"A", "B"}
Vals == {1, 2}
OpMenu == [op : {"put"}, k : Names, v : Vals] \cup [op : {"get", "rem"}, k : Names, v : {0}]

VARIABLES pool, curp, disk,     \* index: nextPool, curPool, flushed list of the bucket: [has, l]
          pri, nloc, fl,        \* primary: loc -> [k, v]; next location; freelist (sequence of locations)
          prog, pc, lv, res,    \* per thread: operation, program counter, locals, result
          clock, inv, rsp,      \* real-time stamps of invocation / response
          fpc,                  \* flusher pc
          hist                  \* schedule (sequence of thread names / "f")

vars == <<pool, curp, disk, pri, nloc, fl, prog, pc, lv, res, clock, inv, rsp, fpc, hist>>
View == <<pool, curp, disk, pri, nloc, fl, prog, pc, lv, res, inv, rsp, fpc>>

None == [has |-> FALSE, l |-> <<>>]
Some(x) == [has |-> TRUE, l |-> x]
Cached == IF pool.has THEN pool ELSE curp                 \* readCached: nextPool, then curPool
Eff == IF Cached.has THEN Cached ELSE disk                \* what a section holding the bucket lock sees

InitList == IF InitPresent = {} THEN None
            ELSE IF InitPresent = {"A"} THEN Some(PutFirstL(KA, 1))
            ELSE IF InitPresent = {"B"} THEN Some(PutFirstL(KB, 2))
            ELSE Some(PutListL(PutFirstL(KA, 1), KB, 2))

\* Programs that fire the known finding KF-C05-same-key-writers (there is no per-key
\* serialisation of writers):
\*  (a) a Put that updates a present key overlapping a Remove of that key: the Put fails with
\*      "key to update not found";
\*  (b) immutable mode, two Puts of the same absent key: both are acknowledged although the
\*      second must fail with key-exists (Index.Put silently keeps the first entry).
KnownRace(pr) ==
  \E a, b \in Threads : a # b /\ pr[a].k = pr[b].k /\ pr[a].op = "put"
     /\ \/ (pr[b].op = "rem" /\ pr[a].k \in InitPresent)
        \/ (Immutable /\ pr[b].op = "put" /\ pr[a].k \notin InitPresent)

Init ==
  /\ pool = None /\ curp = None /\ disk = InitList
  /\ pri = [l \in {1, 2} |-> IF l = 1 THEN [k |-> KA, v |-> 1] ELSE [k |-> KB, v |-> 1]]
  /\ nloc = 3 /\ fl = <<>>
  /\ prog \in [Threads -> OpMenu]
  /\ (AllowUpdateVsRemove \/ ~KnownRace(prog))
  /\ pc = [t \in Threads |-> "L1"]
  /\ lv = [t \in Threads |-> [src |-> None, loc |-> 0, found |-> FALSE, same |-> FALSE, nl |-> 0]]
  /\ res = [t \in Threads |-> <<"none">>]
  /\ clock = 0 /\ inv = [t \in Threads |-> 0] /\ rsp = [t \in Threads |-> 0]
  /\ fpc = IF WithFlusher THEN "PS" ELSE "done"
  /\ hist = <<>>

Step(t) == hist' = Append(hist, t)
Ret(t, r) == /\ res' = [res EXCEPT ![t] = r]
             /\ pc' = [pc EXCEPT ![t] = "done"]
             /\ clock' = clock + 1
             /\ rsp' = [rsp EXCEPT ![t] = clock + 1]

\* L1: Index.Get reads the bucket info under the read lock: the cached list, or the bucket
\* position of the flushed record list (modelled by remembering which list it will read)
L1(t) ==
  /\ pc[t] = "L1"
  /\ lv' = [lv EXCEPT ![t].src = IF Cached.has THEN Cached ELSE disk]
  /\ pc' = [pc EXCEPT ![t] = "L2"]
  /\ clock' = clock + 1 /\ inv' = [inv EXCEPT ![t] = clock + 1]
  /\ Step(t)
  /\ UNCHANGED <<pool, curp, disk, pri, nloc, fl, prog, res, rsp, fpc>>

\* L2: read the record list found in L1 (no lock) and look the key up
L2(t) ==
  /\ pc[t] = "L2"
  /\ LET l == lv[t].src.l
         m == Match(l, KeyOf(prog[t].k))
     IN lv' = [lv EXCEPT ![t].found = (m # 0), ![t].loc = IF m # 0 THEN l[m].loc ELSE 0]
  /\ pc' = [pc EXCEPT ![t] = "W1"]
  /\ Step(t)
  /\ UNCHANGED <<pool, curp, disk, pri, nloc, fl, prog, res, clock, inv, rsp, fpc>>

\* W1: primary read + full-key compare, then the operation's first write
W1(t) ==
  /\ pc[t] = "W1"
  /\ LET o    == prog[t]
         same == lv[t].found /\ pri[lv[t].loc].k = KeyOf(o.k)
     IN CASE o.op = "get" ->
               /\ Ret(t, IF same THEN <<"val", pri[lv[t].loc].v>> ELSE <<"absent">>)
               /\ UNCHANGED <<pool, pri, nloc, lv>>
          [] o.op = "rem" ->
               IF ~same THEN Ret(t, <<"removed", FALSE>>) /\ UNCHANGED <<pool, pri, nloc, lv>>
               ELSE LET m == Match(Eff.l, KeyOf(o.k)) IN        \* Index.Remove under the bucket lock
                    IF m = 0 THEN Ret(t, <<"removed", FALSE>>) /\ UNCHANGED <<pool, pri, nloc, lv>>
                    ELSE /\ pool' = Some(Splice(Eff.l, m, m + 1, <<>>))
                         /\ pc' = [pc EXCEPT ![t] = "W3"]
                         /\ UNCHANGED <<res, clock, rsp, pri, nloc, lv>>
          [] o.op = "put" ->
               IF same /\ Immutable THEN Ret(t, <<"exists">>) /\ UNCHANGED <<pool, pri, nloc, lv>>
               ELSE IF same /\ pri[lv[t].loc].v = o.v THEN Ret(t, <<"ok">>) /\ UNCHANGED <<pool, pri, nloc, lv>>
               ELSE /\ pri' = [l \in DOMAIN pri \cup {nloc} |-> IF l = nloc THEN [k |-> KeyOf(o.k), v |-> o.v] ELSE pri[l]]
                    /\ lv' = [lv EXCEPT ![t].nl = nloc, ![t].same = same]
                    /\ nloc' = nloc + 1
                    /\ pc' = [pc EXCEPT ![t] = "W2"]
                    /\ UNCHANGED <<res, clock, rsp, pool>>
  /\ Step(t)
  /\ UNCHANGED <<curp, disk, fl, prog, inv, fpc>>

\* W2: Index.Put (new key) or Index.Update (same key found), under the bucket lock
W2(t) ==
  /\ pc[t] = "W2"
  /\ LET k == KeyOf(prog[t].k) IN
     IF ~lv[t].same
     THEN /\ pool' = Some(IF Eff.has THEN PutListL(Eff.l, k, lv[t].nl) ELSE PutFirstL(k, lv[t].nl))
          /\ Ret(t, <<"ok">>)
     ELSE LET m == IF Eff.has THEN Match(Eff.l, k) ELSE 0 IN
          IF m = 0 THEN Ret(t, <<"ERROR">>) /\ UNCHANGED pool       \* "key to update not found"
          ELSE /\ pool' = Some([Eff.l EXCEPT ![m] = [p |-> Eff.l[m].p, k |-> k, loc |-> lv[t].nl]])
               /\ pc' = [pc EXCEPT ![t] = "W3"]
               /\ UNCHANGED <<res, clock, rsp>>
  /\ Step(t)
  /\ UNCHANGED <<curp, disk, pri, nloc, fl, prog, lv, inv, fpc>>

\* W3: freelist.Put of the superseded location
W3(t) ==
  /\ pc[t] = "W3"
  /\ fl' = Append(fl, lv[t].loc)
  /\ Ret(t, IF prog[t].op = "put" THEN <<"ok">> ELSE <<"removed", TRUE>>)
  /\ Step(t)
  /\ UNCHANGED <<pool, curp, disk, pri, nloc, prog, lv, inv, fpc>>

\* ---- one commit: primary.Flush, index.Flush, freelist.Flush
FStep(from, to) == fpc = from /\ fpc' = to /\ hist' = Append(hist, "f")
PS == FStep("PS", "PW") /\ UNCHANGED <<pool, curp, disk, pri, nloc, fl, prog, pc, lv, res, clock, inv, rsp>>
PW == FStep("PW", "IS") /\ UNCHANGED <<pool, curp, disk, pri, nloc, fl, prog, pc, lv, res, clock, inv, rsp>>
IS == /\ FStep("IS", "IW")
      /\ IF pool.has THEN curp' = pool /\ pool' = None ELSE UNCHANGED <<pool, curp>>
      /\ UNCHANGED <<disk, pri, nloc, fl, prog, pc, lv, res, clock, inv, rsp>>
IW == FStep("IW", "BC") /\ UNCHANGED <<pool, curp, disk, pri, nloc, fl, prog, pc, lv, res, clock, inv, rsp>>
BC == /\ FStep("BC", "FF")
      /\ IF curp.has THEN disk' = curp ELSE UNCHANGED disk
      /\ UNCHANGED <<pool, curp, pri, nloc, fl, prog, pc, lv, res, clock, inv, rsp>>
FF == FStep("FF", "done") /\ UNCHANGED <<pool, curp, disk, pri, nloc, fl, prog, pc, lv, res, clock, inv, rsp>>

Client(t) == L1(t) \/ L2(t) \/ W1(t) \/ W2(t) \/ W3(t)
Next == (\E t \in Threads : Client(t)) \/ PS \/ PW \/ IS \/ IW \/ BC \/ FF
Spec == Init /\ [][Next]_vars

\* ------------------------------------------------------------------ C05 on the model
AllDone == (\A t \in Threads : pc[t] = "done") /\ fpc = "done"
InitKV == [n \in Names |-> IF n \in InitPresent THEN 1 ELSE 0]
Apply(kv, o) ==
  CASE o.op = "get" -> <<kv, IF kv[o.k] # 0 THEN <<"val", kv[o.k]>> ELSE <<"absent">>>>
    [] o.op = "rem" -> <<[kv EXCEPT ![o.k] = 0], <<"removed", kv[o.k] # 0>>>>
    [] o.op = "put" -> IF kv[o.k] # 0 /\ Immutable THEN <<kv, <<"exists">>>>
                       ELSE <<[kv EXCEPT ![o.k] = o.v], <<"ok">>>>
FinalKV == [n \in Names |-> LET m == IF Eff.has THEN Match(Eff.l, KeyOf(n)) ELSE 0 IN
              IF m # 0 /\ pri[Eff.l[m].loc].k = KeyOf(n) THEN pri[Eff.l[m].loc].v ELSE 0]
Orders == {s \in [1..Cardinality(Threads) -> Threads] : \A i, j \in DOMAIN s : i # j => s[i] # s[j]}
RECURSIVE Run(_, _, _)
Run(kv, s, i) == IF i > Len(s) THEN <<kv, TRUE>>
                 ELSE LET a == Apply(kv, prog[s[i]]) IN
                      IF a[2] = res[s[i]] THEN Run(a[1], s, i + 1) ELSE <<kv, FALSE>>
RealTimeOK(s) == \A i, j \in DOMAIN s : i < j => ~(rsp[s[j]] < inv[s[i]])
Linearizable == AllDone => \E s \in Orders : RealTimeOK(s) /\ LET r == Run(InitKV, s, 1) IN r[2] /\ r[1] = FinalKV
NoError == \A t \in Threads : res[t] # <<"ERROR">>
\* C13 under concurrency (known design-level defect: same-key writers free the old location twice)
FreeOnce == \A i, j \in 1..Len(fl) : i # j => fl[i] # fl[j]
=======================================================================
