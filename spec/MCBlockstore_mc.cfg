SPECIFICATION Spec
INVARIANTS TypeOK Agree Alias
PROPERTIES CancelledNoEffect
VIEW View
CHECK_DEADLOCK FALSE
