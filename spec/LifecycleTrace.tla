--------------------------- MODULE LifecycleTrace ---------------------------
(* C17, I->S binding: observations of the real process around Store.Close     *)
(* (engine "life").  "closed" = sampled when Close returned, "later" = 150 ms *)
(* after; "openfailed" = after an OpenStore that must fail; "reopened" = the  *)
(* directory opened again afterwards.                                         *)
(*   goroutines = goroutines with a frame in the module, minus the baseline   *)
(*   fds        = descriptors of this process on files of the store directory *)
(*   dir        = fingerprint of the directory (names, sizes, hashes, mtimes)  *)
EXTENDS TraceLib

VARIABLES l, dirAtClose
vars == <<l, dirAtClose>>
Init == l = 1 /\ dirAtClose = "" /\ RegInit

Rules(e) ==
     (IF e.e = "close-hangs" THEN {"close-does-not-return"} ELSE {})
  \cup (IF e.e = "close-returned-while-parked" THEN {"close-returned-while-a-cycle-was-still-running"} ELSE {})
  \cup (IF e.e = "closed" /\ e.cerr # "" THEN {"close-error"} ELSE {})
  \cup (IF e.e \in {"closed", "later", "openfailed"} /\ Len(e.fds) > 0 THEN {"descriptor-open-after-close"} ELSE {})
  \cup (IF e.e \in {"later", "openfailed", "reopened"} /\ e.goroutines > 0 THEN {"goroutine-alive-after-close"} ELSE {})
  \cup (IF e.e = "later" /\ dirAtClose # "" /\ e.dir # dirAtClose THEN {"directory-modified-after-close"} ELSE {})
  \cup (IF e.e = "openfailed" /\ e.class = "opened" THEN {"open-should-have-failed"} ELSE {})
  \cup (IF e.e = "reopened" /\ ~e.ok THEN {"cannot-reopen-after-close"} ELSE {})
  \cup (IF e.e = "reopened" /\ e.ok /\ e.wrong > 0 THEN {"contents-lost-across-close"} ELSE {})

Next ==
  /\ l <= Len(Trace)
  /\ LET e == Trace[l] IN
       /\ Flag(e, IF e.e = "reset" THEN {} ELSE Rules(e))
       /\ dirAtClose' = (IF e.e = "reset" THEN "" ELSE IF e.e = "closed" THEN e.dir ELSE dirAtClose)
  /\ Consumed(l)
  /\ l' = l + 1

Spec == Init /\ [][Next]_vars
=======================================================================
