------------------------------- MODULE Upgrade -------------------------------
(* The legacy upgrade as a crash-restart protocol over the files it creates,  *)
(* renames and removes (store/primary/multihash/upgrade.go upgradePrimary,     *)
(* store/index/upgrade.go upgradeIndex, store/index/index.go remapIndex and    *)
(* the tail of index.Open).  One action per file-system call that matters;     *)
(* Crash may happen between any two of them and loses the process state (pc,   *)
(* the in-memory list of record lists to clean); Restart runs the open again   *)
(* from what is on disk.                                                       *)
(*                                                                             *)
(* Abstract state of a file's CONTENT, not its bytes:                          *)
(*   an index file holds entries whose primary offsets are "old" (positions    *)
(*   in the single legacy primary) or "new" (remapped to the chunk files);     *)
(*   remapping a file twice would turn it into "garbage";                      *)
(*   "bad" marks a remapped file that still holds entries for records the      *)
(*   legacy primary lost (they were written with offset 0 and are dropped by   *)
(*   a flush of cleaned record lists at the very end of the open).             *)
(*                                                                             *)
(* Properties: Finished => every index file is "new" (remapped exactly once),  *)
(* no temporary, marker, legacy or .gc file is left, the freelist was applied  *)
(* once; CleanWhenFinished => no "bad" file remains.  With Lost = {} both      *)
(* hold; with a lost record TLC finds the behaviour of known finding           *)
(* KF-C10-interrupted-cleanup-of-unusable-entries (crash after a marker was    *)
(* created and before the final flush).  The constants name the two repaired   *)
(* defects of this protocol so that their absence can be model-checked:        *)
(* ResumeRename (f97cf3f: a restart that finds the marker completes the        *)
(* pending rename) and HeaderAtomic (09f2ab0: headers are written to a         *)
(* temporary file and renamed).  NothingLeft failed on the first run of this   *)
(* model: a crash between the primary header write and the removal of the      *)
(* legacy primary left that file behind for good - confirmed on the real       *)
(* store and repaired (constant LeftoverRemoved).                              *)
EXTENDS Integers, Sequences, FiniteSets, TLC

CONSTANTS IdxFiles,      \* set of index chunk file numbers that hold buckets, e.g. {0, 1}
          Lost,          \* subset of IdxFiles: files holding entries whose primary record is lost
          NeedRemap,     \* TRUE: the primary was split into several files (remapping needed)
          ResumeRename,  \* TRUE as the code is now
          LeftoverRemoved, \* TRUE as the code is now (repair 68405ae)
          MaxCrashes

VARIABLES pc,            \* program counter of the running open ("down" = no process)
          oldPri, priChunks, priHdr,      \* legacy primary present; chunk files written; data.info present
          fl, flgc, marked,               \* freelist pending / .gc present / entries applied to the primary (count of applications)
          oldIdx, idxChunks, idxHdr,      \* legacy index present; chunk files present; index.info: "none" | "v3" (PrimaryFileSize 0) | "done"
          content,       \* index file -> "old" | "new" | "garbage"
          bad,           \* set of index files with unusable entries still in them
          tmp,           \* index file -> "none" | "old" | "new"      (f.tmp and what it holds)
          marker,        \* set of index files whose .remapped marker exists
          rmPool,        \* in memory: files whose cleaned record lists wait for the final flush
          todo,          \* in memory: files still to be looked at by this run of remapIndex
          cur,           \* in memory: the file the remap loop is working on (-1 = none)
          crashes, sched
vars == <<pc, oldPri, priChunks, priHdr, fl, flgc, marked, oldIdx, idxChunks, idxHdr, content, bad, tmp, marker, rmPool, todo, cur, crashes, sched>>
View == <<pc, oldPri, priChunks, priHdr, fl, flgc, marked, oldIdx, idxChunks, idxHdr, content, bad, tmp, marker, rmPool, todo, cur, crashes>>

Init == /\ pc = "start" /\ oldPri = TRUE /\ priChunks = FALSE /\ priHdr = FALSE
        /\ fl = TRUE /\ flgc = FALSE /\ marked = 0
        /\ oldIdx = TRUE /\ idxChunks = FALSE /\ idxHdr = "none"
        /\ content = [f \in IdxFiles |-> "old"] /\ bad = {} /\ tmp = [f \in IdxFiles |-> "none"] /\ marker = {}
        /\ rmPool = {} /\ todo = {} /\ cur = -1 /\ crashes = 0 /\ sched = <<>>

Step(a) == sched' = Append(sched, a)
Goto(p) == pc' = p

\* ---------------------------------------------------------------- primary (mhprimary.Open -> upgradePrimary)
\* (LeftoverRemoved = FALSE is the code before repair: a header that exists means "nothing to do", the legacy file stays)
PStart == /\ pc = "start"
          /\ IF priHdr \/ ~oldPri THEN Goto("idx") ELSE Goto("p.togc")
          /\ oldPri' = (IF priHdr /\ LeftoverRemoved THEN FALSE ELSE oldPri)
          /\ Step("PStart")
          /\ UNCHANGED <<priChunks, priHdr, fl, flgc, marked, oldIdx, idxChunks, idxHdr, content, bad, tmp, marker, rmPool, todo, cur, crashes>>
\* applyFreeList: hand the freelist over (an existing .gc is used as it is), mark the records, remove .gc
PToGC == /\ pc = "p.togc"
         /\ IF flgc THEN UNCHANGED <<fl, flgc>> ELSE fl' = FALSE /\ flgc' = fl
         /\ Goto("p.mark") /\ Step("PToGC")
         /\ UNCHANGED <<oldPri, priChunks, priHdr, marked, oldIdx, idxChunks, idxHdr, content, bad, tmp, marker, rmPool, todo, cur, crashes>>
PMark == /\ pc = "p.mark"
         /\ marked' = (IF flgc THEN 1 ELSE marked)          \* marking is idempotent: already deleted records are skipped
         /\ Goto("p.rmgc") /\ Step("PMark")
         /\ UNCHANGED <<oldPri, priChunks, priHdr, fl, flgc, oldIdx, idxChunks, idxHdr, content, bad, tmp, marker, rmPool, todo, cur, crashes>>
PRmGC == /\ pc = "p.rmgc" /\ flgc' = FALSE /\ Goto("p.chunk") /\ Step("PRmGC")
         /\ UNCHANGED <<oldPri, priChunks, priHdr, fl, marked, oldIdx, idxChunks, idxHdr, content, bad, tmp, marker, rmPool, todo, cur, crashes>>
PChunk == /\ pc = "p.chunk" /\ priChunks' = TRUE /\ Goto("p.hdr") /\ Step("PChunk")           \* chunk files are created with O_TRUNC: a re-run rewrites them
          /\ UNCHANGED <<oldPri, priHdr, fl, flgc, marked, oldIdx, idxChunks, idxHdr, content, bad, tmp, marker, rmPool, todo, cur, crashes>>
PHdr == /\ pc = "p.hdr" /\ priHdr' = TRUE /\ Goto("p.rmold") /\ Step("PHdr")
        /\ UNCHANGED <<oldPri, priChunks, fl, flgc, marked, oldIdx, idxChunks, idxHdr, content, bad, tmp, marker, rmPool, todo, cur, crashes>>
PRmOld == /\ pc = "p.rmold" /\ oldPri' = FALSE /\ Goto("p.hdr2") /\ Step("PRmOld")
          /\ UNCHANGED <<priChunks, priHdr, fl, flgc, marked, oldIdx, idxChunks, idxHdr, content, bad, tmp, marker, rmPool, todo, cur, crashes>>

\* back in mhprimary.Open the header is written once more (same contents)
PHdr2 == /\ pc = "p.hdr2" /\ priHdr' = TRUE /\ Goto("idx") /\ Step("PHdr2")
         /\ UNCHANGED <<oldPri, priChunks, fl, flgc, marked, oldIdx, idxChunks, idxHdr, content, bad, tmp, marker, rmPool, todo, cur, crashes>>

\* ---------------------------------------------------------------- index (index.Open -> upgradeIndex, remapIndex)
\* upgradeIndex runs whenever the legacy file exists (it does not look at the header): chunk files are re-created
IStart == /\ pc = "idx"
          /\ IF oldIdx THEN Goto("i.chunk") ELSE Goto("i.open")
          /\ Step("IStart")
          /\ UNCHANGED <<oldPri, priChunks, priHdr, fl, flgc, marked, oldIdx, idxChunks, idxHdr, content, bad, tmp, marker, rmPool, todo, cur, crashes>>
IChunk == /\ pc = "i.chunk" /\ idxChunks' = TRUE
          /\ content' = [f \in IdxFiles |-> "old"] /\ bad' = {}      \* O_TRUNC + copy of the legacy records
          /\ Goto("i.hdr") /\ Step("IChunk")
          /\ UNCHANGED <<oldPri, priChunks, priHdr, fl, flgc, marked, oldIdx, idxHdr, tmp, marker, rmPool, todo, cur, crashes>>
IHdr == /\ pc = "i.hdr" /\ idxHdr' = "v3" /\ Goto("i.rmold") /\ Step("IHdr")
        /\ UNCHANGED <<oldPri, priChunks, priHdr, fl, flgc, marked, oldIdx, idxChunks, content, bad, tmp, marker, rmPool, todo, cur, crashes>>
IRmOld == /\ pc = "i.rmold" /\ oldIdx' = FALSE /\ Goto("i.open") /\ Step("IRmOld")
          /\ UNCHANGED <<oldPri, priChunks, priHdr, fl, flgc, marked, idxChunks, idxHdr, content, bad, tmp, marker, rmPool, todo, cur, crashes>>
\* header read; PrimaryFileSize 0 -> remapIndex
IOpen == /\ pc = "i.open"
         /\ IF idxHdr = "done" THEN Goto("i.final") /\ UNCHANGED todo
            ELSE IF ~NeedRemap THEN Goto("i.hdr2") /\ UNCHANGED todo
            ELSE Goto("i.remap") /\ todo' = IdxFiles
         /\ Step("IOpen")
         /\ UNCHANGED <<oldPri, priChunks, priHdr, fl, flgc, marked, oldIdx, idxChunks, idxHdr, content, bad, tmp, marker, rmPool, cur, crashes>>
\* one file of the remap loop (Go map order: any file of todo)
\*   marker exists: already remapped - complete a pending rename (ResumeRename), skip
RSkip(f) == /\ pc = "i.remap" /\ f \in todo /\ f \in marker
            /\ IF ResumeRename /\ tmp[f] # "none"
               THEN content' = [content EXCEPT ![f] = tmp[f]] /\ tmp' = [tmp EXCEPT ![f] = "none"]
               ELSE UNCHANGED <<content, tmp>>
            /\ todo' = todo \ {f} /\ Step("RSkip") /\ UNCHANGED pc
            /\ UNCHANGED <<oldPri, priChunks, priHdr, fl, flgc, marked, oldIdx, idxChunks, idxHdr, bad, marker, rmPool, cur, crashes>>
RCopy(f) == /\ pc = "i.remap" /\ f \in todo /\ f \notin marker
            /\ tmp' = [tmp EXCEPT ![f] = content[f]] /\ pc' = "r.write" /\ cur' = f /\ Step("RCopy")
            /\ UNCHANGED <<oldPri, priChunks, priHdr, fl, flgc, marked, oldIdx, idxChunks, idxHdr, content, bad, marker, rmPool, todo, crashes>>
RWrite(f) == /\ pc = "r.write" /\ cur = f
             /\ tmp' = [tmp EXCEPT ![f] = IF @ = "old" THEN "new" ELSE "garbage"]     \* offsets remapped in the copy
             /\ rmPool' = (IF f \in Lost THEN rmPool \cup {f} ELSE rmPool)           \* entries to drop are remembered in memory
             /\ pc' = "r.mark" /\ Step("RWrite")
             /\ UNCHANGED <<oldPri, priChunks, priHdr, fl, flgc, marked, oldIdx, idxChunks, idxHdr, content, bad, marker, todo, cur, crashes>>
RMark(f) == /\ pc = "r.mark" /\ cur = f /\ marker' = marker \cup {f} /\ pc' = "r.rename" /\ Step("RMark")
            /\ UNCHANGED <<oldPri, priChunks, priHdr, fl, flgc, marked, oldIdx, idxChunks, idxHdr, content, bad, tmp, rmPool, todo, cur, crashes>>
RRename(f) == /\ pc = "r.rename" /\ cur = f
              /\ content' = [content EXCEPT ![f] = tmp[f]] /\ tmp' = [tmp EXCEPT ![f] = "none"]
              /\ bad' = (IF f \in Lost THEN bad \cup {f} ELSE bad)
              /\ todo' = todo \ {f} /\ pc' = "i.remap" /\ cur' = -1 /\ Step("RRename")
              /\ UNCHANGED <<oldPri, priChunks, priHdr, fl, flgc, marked, oldIdx, idxChunks, idxHdr, marker, rmPool, crashes>>
RDone == /\ pc = "i.remap" /\ todo = {} /\ Goto("i.hdr2") /\ Step("RDone")
         /\ UNCHANGED <<oldPri, priChunks, priHdr, fl, flgc, marked, oldIdx, idxChunks, idxHdr, content, bad, tmp, marker, rmPool, todo, cur, crashes>>
IHdr2 == /\ pc = "i.hdr2" /\ idxHdr' = "done" /\ Goto("i.rmmarkers") /\ Step("IHdr2")
         /\ UNCHANGED <<oldPri, priChunks, priHdr, fl, flgc, marked, oldIdx, idxChunks, content, bad, tmp, marker, rmPool, todo, cur, crashes>>
IRmMarkers == /\ pc = "i.rmmarkers" /\ marker' = {} /\ Goto("i.final") /\ Step("IRmMarkers")
              /\ UNCHANGED <<oldPri, priChunks, priHdr, fl, flgc, marked, oldIdx, idxChunks, idxHdr, content, bad, tmp, rmPool, todo, cur, crashes>>
\* the tail of index.Open: the cleaned record lists are flushed (they supersede the lists that hold the unusable entries)
IFinal == /\ pc = "i.final" /\ bad' = bad \ rmPool /\ rmPool' = {} /\ Goto("done") /\ Step("IFinal")
          /\ UNCHANGED <<oldPri, priChunks, priHdr, fl, flgc, marked, oldIdx, idxChunks, idxHdr, content, tmp, marker, todo, cur, crashes>>

\* ---------------------------------------------------------------- crash and restart
Crash == /\ pc \notin {"down", "done"} /\ crashes < MaxCrashes
         /\ pc' = "down" /\ rmPool' = {} /\ todo' = {} /\ cur' = -1 /\ crashes' = crashes + 1 /\ Step("Crash")
         /\ UNCHANGED <<oldPri, priChunks, priHdr, fl, flgc, marked, oldIdx, idxChunks, idxHdr, content, bad, tmp, marker>>
Restart == /\ pc = "down" /\ pc' = "start" /\ Step("Restart")
           /\ UNCHANGED <<oldPri, priChunks, priHdr, fl, flgc, marked, oldIdx, idxChunks, idxHdr, content, bad, tmp, marker, rmPool, todo, cur, crashes>>

Next == PStart \/ PToGC \/ PMark \/ PRmGC \/ PChunk \/ PHdr \/ PRmOld \/ PHdr2 \/ IStart \/ IChunk \/ IHdr \/ IRmOld \/ IOpen
        \/ (\E f \in IdxFiles : RSkip(f) \/ RCopy(f) \/ RWrite(f) \/ RMark(f) \/ RRename(f))
        \/ RDone \/ IHdr2 \/ IRmMarkers \/ IFinal \/ Crash \/ Restart
Spec == Init /\ [][Next]_vars /\ WF_vars(Next)

\* ---------------------------------------------------------------- properties
Finished == pc = "done"
RemappedOnce == Finished /\ NeedRemap => \A f \in IdxFiles : content[f] = "new"
NeverGarbage == \A f \in IdxFiles : content[f] # "garbage"
NothingLeft == Finished => ~oldPri /\ ~oldIdx /\ ~flgc /\ priHdr /\ idxHdr = "done" /\ (\A f \in IdxFiles : tmp[f] = "none")
\* NOT an invariant of the protocol (TLC: crash between the final header write and the removal of the markers): the next
\* open sees a finished header and never looks at the markers again; they stay as empty files.  Harmless - remapIndex only
\* runs while the header says "not remapped" - and therefore recorded here, not demanded of the code.
NoStaleMarkers == Finished => marker = {}
FreelistApplied == Finished => ~fl /\ marked = 1
CleanWhenFinished == Finished => bad = {}          \* fails with Lost # {} and a crash: KF-C10-interrupted-cleanup-of-unusable-entries
\* an open that is not interrupted again always finishes
Completes == <>(pc = "done")
=======================================================================
