SPECIFICATION Spec
CONSTANTS
  Keys <- MCKeys
INVARIANTS Refines PredictedPositionsExact FreedOnce SnapshotEqualsRescan
VIEW View
CHECK_DEADLOCK FALSE
