SPECIFICATION Spec
CONSTANTS
  Keys <- MCKeys
INVARIANTS Refines PredictedPositionsExact FreedOnce
VIEW View
CHECK_DEADLOCK FALSE
