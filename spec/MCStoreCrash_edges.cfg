SPECIFICATION CSpec
CONSTANTS
  Keys <- MCKeys
PROPERTIES EmitEdges
VIEW CView
CHECK_DEADLOCK FALSE
