------------------------ MODULE RecordListTrace ------------------------
(* C08, I->S binding.  Total monitor over traces recorded from the real    *)
(* index.Index (harness engine "reclist").  The only state carried is the  *)
(* property's ghost: for each key the location most recently associated    *)
(* with it (-1 = absent), plus the previously observed list.  Every rule   *)
(* is evaluated on the REAL record list and the REAL Index.Get results.    *)
EXTENDS TraceLib, Bytes

VARIABLES l, cur, prev
vars == <<l, cur, prev>>

Init == l = 1 /\ cur = <<>> /\ prev = <<>> /\ RegInit

Keys == DOMAIN cur
CurLocs(c) == {c[k] : k \in DOMAIN c} \ {-1}
OwnerOf(c, loc) == CHOOSE k \in DOMAIN c : c[k] = loc

Sorted(L)     == \A i \in 1..(Len(L) - 1) : Greater(L[i + 1].p, L[i].p)
PrefixFree(L) == \A i, j \in 1..Len(L) : i # j => ~IsPrefix(L[i].p, L[j].p)
\* every entry names the current location of exactly one present key and its
\* stored prefix is a prefix of that key; locations are distinct
Owned(L, c)   == /\ \A i \in 1..Len(L) : L[i].loc \in CurLocs(c) /\ IsPrefix(L[i].p, OwnerOf(c, L[i].loc))
                 /\ \A i, j \in 1..Len(L) : i # j => L[i].loc # L[j].loc
Count(L, c)   == Len(L) = Cardinality({k \in DOMAIN c : c[k] # -1})
GetOK(g, c)   == /\ g.err = ""
                 /\ IF c[g.k] # -1 THEN g.found /\ g.loc = c[g.k]
                    ELSE ~g.found \/ (g.loc \in CurLocs(c))
Resolves(G, c) == \A i \in 1..Len(G) : GetOK(G[i], c)
Without(L, locs) == SelectSeq(L, LAMBDA x : x.loc \notin locs)

Rules(e, c2) ==
  LET L == e.rl IN
     (IF e.err # "" THEN {"error"} ELSE {})
  \cup (IF ~Sorted(L) THEN {"sorted"} ELSE {})
  \cup (IF ~PrefixFree(L) THEN {"prefix-free"} ELSE {})
  \cup (IF ~Owned(L, c2) THEN {"own-prefix"} ELSE {})
  \cup (IF ~Count(L, c2) THEN {"count"} ELSE {})
  \cup (IF ~Resolves(e.gets, c2) THEN {"resolves"} ELSE {})
  \cup (IF e.e = "rem" /\ e.removed # (cur[e.k] # -1) THEN {"remove-result"} ELSE {})
  \cup (IF e.e \in {"upd", "rem"} /\ Without(L, {cur[e.k], c2[e.k]}) # Without(prev, {cur[e.k], c2[e.k]})
        THEN {"touches-only-addressed"} ELSE {})
  \cup (IF e.e = "flush" /\ L # prev THEN {"flush-changes-list"} ELSE {})

Next ==
  /\ l <= Len(Trace)
  /\ LET e == Trace[l] IN
       IF e.e = "reset"
       THEN /\ cur' = [k \in RangeOf(e.keys) |-> -1]
            /\ prev' = <<>>
       ELSE LET c2 == IF e.e \in {"put", "upd"} THEN [cur EXCEPT ![e.k] = e.loc]
                      ELSE IF e.e = "rem" THEN [cur EXCEPT ![e.k] = -1]
                      ELSE cur
            IN /\ Flag(e, Rules(e, c2))
               /\ cur' = c2
               /\ prev' = e.rl
  /\ Consumed(l)
  /\ l' = l + 1

Spec == Init /\ [][Next]_vars
=======================================================================
