SPECIFICATION Spec
INVARIANTS Linearizable NoError
VIEW View
CHECK_DEADLOCK FALSE
