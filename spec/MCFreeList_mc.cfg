SPECIFICATION Spec
INVARIANTS ExactlyOnce NothingInvented LockDiscipline
VIEW View
CHECK_DEADLOCK FALSE
