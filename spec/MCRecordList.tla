------------------------- MODULE MCRecordList -------------------------
(* Model-checking / scenario-generation wrapper of RecordList.            *)
EXTENDS RecordList, Json
CONSTANTS Alphabet, KeyLen
AllKeys == [1..KeyLen -> Alphabet]

\* scenario export: one line per distinct state (BFS => a shortest history)
EmitInv == PrintT(<<"SCN", ToJson([ops |-> hist,
                                   rl |-> [i \in 1..Len(rl) |-> [p |-> rl[i].p, k |-> rl[i].k]]])>>)
\* one scenario per TRANSITION of the state graph
EmitEdges == [][PrintT(<<"SCN", ToJson([ops |-> hist',
                                        rl |-> [i \in 1..Len(rl') |-> [p |-> rl'[i].p, k |-> rl'[i].k]]])>>)]_vars
=======================================================================
