---------------------------- MODULE Bytes ----------------------------
(* Byte-sequence helpers shared by every module: the operators the Go code *)
(* uses on keys (bytes.Compare, bytes.HasPrefix, firstNonCommonByte).      *)
EXTENDS Integers, Sequences

Min(a, b) == IF a < b THEN a ELSE b
Max(a, b) == IF a > b THEN a ELSE b
Take(s, n) == SubSeq(s, 1, n)
Drop(s, n) == SubSeq(s, n + 1, Len(s))

\* bytes.HasPrefix(k, p)
IsPrefix(p, k) == Len(p) <= Len(k) /\ Take(k, Len(p)) = p

\* firstNonCommonByte: number of leading equal bytes
RECURSIVE Fncb(_, _, _)
Fncb(a, b, i) == IF i > Min(Len(a), Len(b)) \/ a[i] # b[i] THEN i - 1 ELSE Fncb(a, b, i + 1)
FNCB(a, b) == Fncb(a, b, 1)

\* bytes.Compare(a, b) = 1
Greater(a, b) ==
  LET c == FNCB(a, b) IN
  IF c = Min(Len(a), Len(b)) THEN Len(a) > Len(b) ELSE a[c + 1] > b[c + 1]

\* replace the half-open index range [from, to) of lst by ins (RecordList.PutKeys)
Splice(lst, from, to, ins) == Take(lst, from - 1) \o ins \o SubSeq(lst, to, Len(lst))
=======================================================================
