SPECIFICATION Spec
CONSTANTS
  Keys <- MCKeys
PROPERTIES EmitEdges
VIEW View
CHECK_DEADLOCK FALSE
