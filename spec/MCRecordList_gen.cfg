SPECIFICATION Spec
CONSTANTS
  Keys <- AllKeys
INVARIANTS EmitInv
VIEW View
CHECK_DEADLOCK FALSE
