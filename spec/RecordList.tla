-------------------------- MODULE RecordList --------------------------
(* C08.  Transcription of the prefix-compressed record list of one index   *)
(* bucket: index.Index.Put / Update / Remove / Get and                      *)
(* RecordList.FindKeyPosition / GetRecord / Get / PutKeys                   *)
(* (store/index/index.go, store/index/recordlist.go).                       *)
(*                                                                          *)
(* An entry is [p |-> stored prefix, k |-> full key it belongs to (what the *)
(* primary holds at the entry's location), v |-> version of the location].  *)
(* `where` says whether the bucket's list currently lives in the in-memory  *)
(* pool or only on disk, so that replay drives both read paths.             *)
EXTENDS Bytes, FiniteSets, TLC

CONSTANTS Keys,        \* set of equal-length, pairwise distinct byte sequences
          MaxPresent   \* bound on simultaneously present keys

VARIABLES rl,          \* the record list: sequence of entries
          cur,         \* ghost: key -> 0 (absent) | current version (1 or 2)
          where,       \* "pool" | "disk" | "none"
          hist         \* history (scenario) that reaches this state; hidden by VIEW

vars == <<rl, cur, where, hist>>
View == <<rl, cur, where>>

\* ---- RecordList.FindKeyPosition: first index whose prefix > key, else Len+1
FindPos(l, key) ==
  IF \E i \in 1..Len(l) : Greater(l[i].p, key)
  THEN CHOOSE i \in 1..Len(l) : Greater(l[i].p, key) /\ \A j \in 1..(i - 1) : ~Greater(l[j].p, key)
  ELSE Len(l) + 1

\* ---- RecordList.Get / GetRecord: scan, remember the last prefix match, stop at
\*      the first entry that is not a prefix of key and compares greater
StopAt(l, key) ==
  IF \E i \in 1..Len(l) : ~IsPrefix(l[i].p, key) /\ Greater(l[i].p, key)
  THEN CHOOSE i \in 1..Len(l) :
         /\ ~IsPrefix(l[i].p, key) /\ Greater(l[i].p, key)
         /\ \A j \in 1..(i - 1) : ~(~IsPrefix(l[j].p, key) /\ Greater(l[j].p, key))
  ELSE Len(l) + 1

Match(l, key) ==
  LET s == StopAt(l, key) IN
  IF \E i \in 1..(s - 1) : IsPrefix(l[i].p, key)
  THEN CHOOSE i \in 1..(s - 1) : IsPrefix(l[i].p, key) /\ \A j \in (i + 1)..(s - 1) : ~IsPrefix(l[j].p, key)
  ELSE 0

\* ---- Index.Put on an existing list (the trimming rule)
PutList(l, k, ver) ==
  LET pos  == FindPos(l, k)
      has  == pos > 1
      prev == l[pos - 1]
  IN IF has /\ IsPrefix(prev.p, k)
     THEN \* previous prefix is contained in the new key: read the previous full key
          LET pk == prev.k
              t  == FNCB(k, pk)
              tp == [p |-> Take(pk, Min(t + 1, Len(pk))), k |-> prev.k, v |-> prev.v]
              tk == [p |-> Take(k, t + 1), k |-> k, v |-> ver]
          IN IF t >= Len(k) THEN l     \* same key already there: no-op
             ELSE Splice(l, pos - 1, pos, IF Greater(tk.p, tp.p) THEN <<tp, tk>> ELSE <<tk, tp>>)
     ELSE LET a == IF has THEN FNCB(k, prev.p) ELSE 0
              b == IF pos <= Len(l) THEN FNCB(k, l[pos].p) ELSE 0
              t == Min(Max(a, b), Len(k) - 1)
          IN Splice(l, pos, pos, << [p |-> Take(k, t + 1), k |-> k, v |-> ver] >>)

\* first key of an empty bucket: one byte
PutFirst(k, ver) == << [p |-> Take(k, 1), k |-> k, v |-> ver] >>

Present == {k \in Keys : cur[k] # 0}

Init ==
  /\ rl = <<>>
  /\ cur = [k \in Keys |-> 0]
  /\ where = "none"
  /\ hist = <<>>

PutNew(k) ==
  /\ cur[k] = 0
  /\ Cardinality(Present) < MaxPresent
  /\ rl' = (IF where = "none" THEN PutFirst(k, 1) ELSE PutList(rl, k, 1))
  /\ cur' = [cur EXCEPT ![k] = 1]
  /\ where' = "pool"
  /\ hist' = Append(hist, [op |-> "put", k |-> k])

Update(k) ==
  /\ cur[k] # 0
  /\ LET m == Match(rl, k) IN
       /\ m # 0
       /\ rl' = [rl EXCEPT ![m] = [p |-> rl[m].p, k |-> k, v |-> 3 - cur[k]]]
  /\ cur' = [cur EXCEPT ![k] = 3 - cur[k]]
  /\ where' = "pool"
  /\ hist' = Append(hist, [op |-> "upd", k |-> k])

Remove(k) ==
  /\ cur[k] # 0
  /\ LET m == Match(rl, k) IN
       /\ m # 0
       /\ rl' = Splice(rl, m, m + 1, <<>>)
  /\ cur' = [cur EXCEPT ![k] = 0]
  /\ where' = "pool"
  /\ hist' = Append(hist, [op |-> "rem", k |-> k])

Flush ==
  /\ where = "pool"
  /\ where' = "disk"
  /\ hist' = Append(hist, [op |-> "flush"])
  /\ UNCHANGED <<rl, cur>>

Next == (\E k \in Keys : PutNew(k) \/ Update(k) \/ Remove(k)) \/ Flush

Spec == Init /\ [][Next]_vars

\* ------------------------------------------------------------------ C08
Sorted     == \A i \in 1..(Len(rl) - 1) : Greater(rl[i + 1].p, rl[i].p)
PrefixFree == \A i, j \in 1..Len(rl) : i # j => ~IsPrefix(rl[i].p, rl[j].p)
OwnPrefix  == \A i \in 1..Len(rl) : IsPrefix(rl[i].p, rl[i].k)
Resolves   == \A k \in Keys :
                IF cur[k] # 0
                THEN Match(rl, k) # 0 /\ rl[Match(rl, k)].k = k /\ rl[Match(rl, k)].v = cur[k]
                ELSE Match(rl, k) = 0 \/ rl[Match(rl, k)].k # k
Count      == Len(rl) = Cardinality(Present)
Inv == Sorted /\ PrefixFree /\ OwnPrefix /\ Resolves /\ Count

\* an update or removal touches only the addressed key's entry
Others(l, k) == SelectSeq(l, LAMBDA e : e.k # k)
TouchesOnlyAddressed ==
  [][\A k \in Keys : (cur[k] # 0 /\ (cur'[k] # cur[k])) => Others(rl', k) = Others(rl, k)]_vars

=======================================================================
