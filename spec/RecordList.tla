-------------------------- MODULE RecordList --------------------------
(* C08.  Transcription of the prefix-compressed record list of one index   *)
(* bucket: index.Index.Put / Update / Remove / Get and                      *)
(* RecordList.FindKeyPosition / GetRecord / Get / PutKeys                   *)
(* (store/index/index.go, store/index/recordlist.go).                       *)
(*                                                                          *)
(* An entry is [p |-> stored prefix, k |-> full key it belongs to (what the *)
(* primary holds at the entry's location), v |-> version of the location].  *)
(* `where` says whether the bucket's list currently lives in the in-memory  *)
(* pool or only on disk, so that replay drives both read paths.             *)
EXTENDS RLOps, FiniteSets, TLC

CONSTANTS Keys,        \* set of equal-length, pairwise distinct byte sequences
          MaxPresent   \* bound on simultaneously present keys

VARIABLES rl,          \* the record list: sequence of entries
          cur,         \* ghost: key -> 0 (absent) | current version (1 or 2)
          where,       \* "pool" | "disk" | "none"
          hist         \* history (scenario) that reaches this state; hidden by VIEW

vars == <<rl, cur, where, hist>>
View == <<rl, cur, where>>

Present == {k \in Keys : cur[k] # 0}

Init ==
  /\ rl = <<>>
  /\ cur = [k \in Keys |-> 0]
  /\ where = "none"
  /\ hist = <<>>

PutNew(k) ==
  /\ cur[k] = 0
  /\ Cardinality(Present) < MaxPresent
  /\ rl' = (IF where = "none" THEN PutFirstV(k, 1) ELSE PutListV(rl, k, 1))
  /\ cur' = [cur EXCEPT ![k] = 1]
  /\ where' = "pool"
  /\ hist' = Append(hist, [op |-> "put", k |-> k])

Update(k) ==
  /\ cur[k] # 0
  /\ LET m == Match(rl, k) IN
       /\ m # 0
       /\ rl' = [rl EXCEPT ![m] = [p |-> rl[m].p, k |-> k, v |-> 3 - cur[k]]]
  /\ cur' = [cur EXCEPT ![k] = 3 - cur[k]]
  /\ where' = "pool"
  /\ hist' = Append(hist, [op |-> "upd", k |-> k])

Remove(k) ==
  /\ cur[k] # 0
  /\ LET m == Match(rl, k) IN
       /\ m # 0
       /\ rl' = Splice(rl, m, m + 1, <<>>)
  /\ cur' = [cur EXCEPT ![k] = 0]
  /\ where' = "pool"
  /\ hist' = Append(hist, [op |-> "rem", k |-> k])

Flush ==
  /\ where = "pool"
  /\ where' = "disk"
  /\ hist' = Append(hist, [op |-> "flush"])
  /\ UNCHANGED <<rl, cur>>

Next == (\E k \in Keys : PutNew(k) \/ Update(k) \/ Remove(k)) \/ Flush

Spec == Init /\ [][Next]_vars

\* ------------------------------------------------------------------ C08
Sorted     == \A i \in 1..(Len(rl) - 1) : Greater(rl[i + 1].p, rl[i].p)
PrefixFree == \A i, j \in 1..Len(rl) : i # j => ~IsPrefix(rl[i].p, rl[j].p)
OwnPrefix  == \A i \in 1..Len(rl) : IsPrefix(rl[i].p, rl[i].k)
Resolves   == \A k \in Keys :
                IF cur[k] # 0
                THEN Match(rl, k) # 0 /\ rl[Match(rl, k)].k = k /\ rl[Match(rl, k)].v = cur[k]
                ELSE Match(rl, k) = 0 \/ rl[Match(rl, k)].k # k
Count      == Len(rl) = Cardinality(Present)
Inv == Sorted /\ PrefixFree /\ OwnPrefix /\ Resolves /\ Count

\* an update or removal touches only the addressed key's entry
Others(l, k) == SelectSeq(l, LAMBDA e : e.k # k)
TouchesOnlyAddressed ==
  [][\A k \in Keys : (cur[k] # 0 /\ (cur'[k] # cur[k])) => Others(rl', k) = Others(rl, k)]_vars

=======================================================================
