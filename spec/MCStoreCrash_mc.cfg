SPECIFICATION CSpec
CONSTANTS
  Keys <- MCKeys
INVARIANTS Refines Durable NoLiveFreed FreedOnce
PROPERTIES CrashRecoversAllowed ReopenPathsAgree
VIEW CView
CHECK_DEADLOCK FALSE
