------------------------------ MODULE FreeList ------------------------------
(* store/freelist/freelist.go as a concurrent component: writers Put,        *)
(* a flusher calls Flush, the primary collector takes the file over (ToGC),   *)
(* reads the .gc file and removes it.  One action per critical section /      *)
(* per segment between two yield points of the code:                          *)
(*                                                                            *)
(*   WPut(w)   Put: append to the pool under poolLk                           *)
(*   FSwap     Flush: take flushLock, swap the pool out under poolLk          *)
(*             (an empty pool returns at once)          -> fl.flush.swapped    *)
(*   FWrite    Flush: write the swapped entries, flush the writer, unlock     *)
(*   GTake     ToGC: an existing .gc is returned as it is; otherwise take     *)
(*             flushLock                                  -> fl.togc.locked    *)
(*   GRename   ToGC: flush the writer, close, rename file -> .gc              *)
(*                                                    -> fl.togc.afterRename   *)
(*   GReopen   ToGC: open a fresh file, reset the writer, unlock              *)
(*   GRead     the collector reads the .gc file                               *)
(*   GRemove   the collector removes the .gc file (entries count as           *)
(*             presented from here on)                                        *)
(*                                                                            *)
(* ExactlyOnce (C13 for this component): at every instant every entry that    *)
(* was Put is in exactly one of pool, swapped-out batch, file, .gc, presented *)
(* - never lost, never twice.  Locking = FALSE removes flushLock from the     *)
(* model: TLC then finds the interleavings that lose entries, which is what   *)
(* the lock probes of the engine look for in the real code.                   *)
EXTENDS Integers, Sequences, FiniteSets, TLC

CONSTANTS Progs,      \* sequence of writer programs: Progs[w] = sequence of entries that writer puts
          NFlush,     \* number of Flush calls of the flusher
          NGC,        \* number of hand-over cycles of the collector
          Locking     \* TRUE: as the code; FALSE: flushLock removed

VARIABLES wpc,        \* writer -> index of its next Put
          pool, batch, file, gc, presented,
          lock,       \* "" | "f" | "g"
          fpc, fleft, \* flusher: "idle" | "swapped" ; calls left
          gpc, gleft, gread,
          sched       \* history: the thread of every step (the schedule that is replayed)
vars == <<wpc, pool, batch, file, gc, presented, lock, fpc, fleft, gpc, gleft, gread, sched>>
View == <<wpc, pool, batch, file, gc, presented, lock, fpc, fleft, gpc, gleft, gread>>

Writers == 1..Len(Progs)
None == [has |-> FALSE, l |-> <<>>]

Init == /\ wpc = [w \in Writers |-> 1]
        /\ pool = <<>> /\ batch = <<>> /\ file = <<>> /\ gc = None /\ presented = <<>>
        /\ lock = "" /\ fpc = "idle" /\ fleft = NFlush /\ gpc = "idle" /\ gleft = NGC /\ gread = <<>>
        /\ sched = <<>>

Step(t) == sched' = Append(sched, t)
Free == ~Locking \/ lock = ""

WPut(w) == /\ wpc[w] <= Len(Progs[w])
           /\ pool' = Append(pool, Progs[w][wpc[w]])
           /\ wpc' = [wpc EXCEPT ![w] = @ + 1]
           /\ Step("w" \o ToString(w))
           /\ UNCHANGED <<batch, file, gc, presented, lock, fpc, fleft, gpc, gleft, gread>>

FSwap == /\ fpc = "idle" /\ fleft > 0 /\ Free
         /\ IF pool = <<>>
            THEN /\ fleft' = fleft - 1 /\ UNCHANGED <<pool, batch, lock, fpc>>
            ELSE /\ batch' = pool /\ pool' = <<>> /\ lock' = "f" /\ fpc' = "swapped" /\ UNCHANGED fleft
         /\ Step("f")
         /\ UNCHANGED <<wpc, file, gc, presented, gpc, gleft, gread>>

FWrite == /\ fpc = "swapped"
          \* (without the lock the write can hit the file ToGC has closed: it fails and the batch is gone)
          /\ file' = (IF gpc = "renamed" THEN file ELSE file \o batch) /\ batch' = <<>>
          /\ lock' = (IF lock = "f" THEN "" ELSE lock) /\ fpc' = "idle" /\ fleft' = fleft - 1
          /\ Step("f")
          /\ UNCHANGED <<wpc, pool, gc, presented, gpc, gleft, gread>>

GTake == /\ gpc = "idle" /\ gleft > 0
         /\ IF gc.has
            THEN gpc' = "got" /\ UNCHANGED lock
            ELSE Free /\ lock' = "g" /\ gpc' = "locked"
         /\ Step("g")
         /\ UNCHANGED <<wpc, pool, batch, file, gc, presented, fpc, fleft, gleft, gread>>

GRename == /\ gpc = "locked"
           /\ gc' = [has |-> TRUE, l |-> file] /\ file' = <<>>
           /\ gpc' = "renamed"
           /\ Step("g")
           /\ UNCHANGED <<wpc, pool, batch, presented, lock, fpc, fleft, gleft, gread>>

GReopen == /\ gpc = "renamed"
           /\ lock' = (IF lock = "g" THEN "" ELSE lock) /\ gpc' = "got"
           /\ Step("g")
           /\ UNCHANGED <<wpc, pool, batch, file, gc, presented, fpc, fleft, gleft, gread>>

GRead == /\ gpc = "got"
         /\ gread' = gc.l /\ gpc' = "read"
         /\ Step("g")
         /\ UNCHANGED <<wpc, pool, batch, file, gc, presented, lock, fpc, fleft, gleft>>

GRemove == /\ gpc = "read"
           /\ presented' = presented \o gread /\ gread' = <<>> /\ gc' = None
           /\ gpc' = "idle" /\ gleft' = gleft - 1
           /\ Step("g")
           /\ UNCHANGED <<wpc, pool, batch, file, lock, fpc, fleft>>

Next == (\E w \in Writers : WPut(w)) \/ FSwap \/ FWrite \/ GTake \/ GRename \/ GReopen \/ GRead \/ GRemove
Spec == Init /\ [][Next]_vars

\* ---------------------------------------------------------------- properties
PutSoFar == UNION {{Progs[w][i] : i \in 1..(wpc[w] - 1)} : w \in Writers}
Count(e, s) == Cardinality({i \in 1..Len(s) : s[i] = e})
\* while the collector holds what it read but has not removed the file, the entries are in .gc only
Where(e) == Count(e, pool) + Count(e, batch) + Count(e, file) + Count(e, gc.l) + Count(e, presented)
ExactlyOnce == \A e \in PutSoFar : Where(e) = 1
NothingInvented == \A e \in {pool[i] : i \in 1..Len(pool)} \cup {file[i] : i \in 1..Len(file)} \cup {gc.l[i] : i \in 1..Len(gc.l)}
                                 \cup {presented[i] : i \in 1..Len(presented)} : e \in PutSoFar
LockDiscipline == Locking => (lock = "f" <=> fpc = "swapped") /\ (lock = "g" <=> gpc \in {"locked", "renamed"})
=======================================================================
