------------------------------ MODULE Translate ------------------------------
(* Re-bucketing (store/store.go translateIndex, store/index/index.go          *)
(* MoveFiles) as a crash-restart protocol over directory entries.  The new     *)
(* index is built in a temporary directory; then the old files are moved, one  *)
(* rename at a time, into a second temporary directory (data files from the    *)
(* first one up, then the header, then the saved bucket table), the new files  *)
(* are moved in the same way into the index directory, and the temporary       *)
(* directories are removed.  Crash may happen between any two renames.         *)
(*                                                                             *)
(* What a fresh open with the NEW bit size finds (index.Open):                 *)
(*   header present, old bits  -> the translation starts again from the old    *)
(*                                files that are still in the index directory  *)
(*   header present, new bits  -> the files in the index directory are used    *)
(*   no header                 -> a new, EMPTY index is created                *)
(*                                                                             *)
(* C09, third sentence: an interrupted re-bucketing never leaves a store that  *)
(* opens successfully with fewer keys than before  ==  NeverSilentlyFewer.     *)
(* TLC refutes it for the code as it is: every state between the first rename  *)
(* of the move phase and the rename that brings the new header in opens with   *)
(* keys missing - known finding KF-C09-interrupted-translation, whose trigger  *)
(* (renamesBefore >= 1 /\ renamesAfter >= 1) is exactly InMovePhase.  Outside  *)
(* the move phase the invariant holds (SafeOutsideMovePhase).                  *)
EXTENDS Integers, Sequences, FiniteSets, TLC

CONSTANTS OldFiles, NewFiles      \* file numbers of the old and of the new index (sets of naturals), both non-empty

VARIABLES pc,
          here,        \* data files in the index directory: set of <<generation, number>>, generation "old" | "new"
          hdr,         \* header in the index directory: "old" | "new" | "none"
          snap,        \* saved bucket table in the index directory: "old" | "new" | "none"
          built,       \* the new index is complete in its temporary directory
          moved,       \* renames done so far in the move phase
          sched
vars == <<pc, here, hdr, snap, built, moved, sched>>
View == <<pc, here, hdr, snap, built, moved>>

Min(S) == CHOOSE x \in S : \A y \in S : x <= y
OldHere == {f \in OldFiles : <<"old", f>> \in here}
NewHere == {f \in NewFiles : <<"new", f>> \in here}

Init == /\ pc = "build" /\ here = {<<"old", f>> : f \in OldFiles} /\ hdr = "old" /\ snap = "old"
        /\ built = FALSE /\ moved = 0 /\ sched = <<>>
Step(a) == sched' = Append(sched, a)

Build == /\ pc = "build" /\ built' = TRUE /\ pc' = "moveold" /\ Step("Build")
         /\ UNCHANGED <<here, hdr, snap, moved>>
\* MoveFiles(old -> temporary directory): files in ascending order, then header, then saved table
MoveOldFile == /\ pc = "moveold" /\ OldHere # {}
               /\ here' = here \ {<<"old", Min(OldHere)>>} /\ moved' = moved + 1 /\ Step("MoveOldFile")
               /\ UNCHANGED <<pc, hdr, snap, built>>
MoveOldHdr == /\ pc = "moveold" /\ OldHere = {} /\ hdr = "old"
              /\ hdr' = "none" /\ moved' = moved + 1 /\ Step("MoveOldHdr") /\ UNCHANGED <<pc, here, snap, built>>
MoveOldSnap == /\ pc = "moveold" /\ OldHere = {} /\ hdr = "none"
               /\ snap' = "none" /\ moved' = moved + 1 /\ pc' = "movenew" /\ Step("MoveOldSnap") /\ UNCHANGED <<here, hdr, built>>
\* MoveFiles(new -> index directory)
MoveNewFile == /\ pc = "movenew" /\ NewHere # NewFiles
               /\ here' = here \cup {<<"new", Min(NewFiles \ NewHere)>>} /\ moved' = moved + 1 /\ Step("MoveNewFile")
               /\ UNCHANGED <<pc, hdr, snap, built>>
MoveNewHdr == /\ pc = "movenew" /\ NewHere = NewFiles /\ hdr = "none"
              /\ hdr' = "new" /\ moved' = moved + 1 /\ Step("MoveNewHdr") /\ UNCHANGED <<pc, here, snap, built>>
MoveNewSnap == /\ pc = "movenew" /\ hdr = "new" /\ snap = "none"
               /\ snap' = "new" /\ moved' = moved + 1 /\ pc' = "cleanup" /\ Step("MoveNewSnap") /\ UNCHANGED <<here, hdr, built>>
Cleanup == /\ pc = "cleanup" /\ pc' = "done" /\ Step("Cleanup") /\ UNCHANGED <<here, hdr, snap, built, moved>>

Next == Build \/ MoveOldFile \/ MoveOldHdr \/ MoveOldSnap \/ MoveNewFile \/ MoveNewHdr \/ MoveNewSnap \/ Cleanup
Spec == Init /\ [][Next]_vars

\* ---------------------------------------------------------------- what a crash here would leave
\* result of OpenStore with the new bit size on the current directory: "all" keys, "fewer" keys, or the open "fails"
OpenAfterCrash ==
  IF hdr = "old" THEN (IF OldHere = OldFiles THEN "all" ELSE "fewer")     \* translated again from what is left of the old index
  ELSE IF hdr = "new" THEN (IF NewHere = NewFiles THEN "all" ELSE "fewer")
  ELSE "fewer"                                                           \* no header: a new empty index is created
InMovePhase == moved >= 1 /\ pc \in {"moveold", "movenew"} /\ ~(hdr = "new")
NeverSilentlyFewer == OpenAfterCrash # "fewer"                \* C09, third sentence: REFUTED by TLC (KF-C09-interrupted-translation)
SafeOutsideMovePhase == ~InMovePhase => OpenAfterCrash = "all"
FinishedRight == pc = "done" => here = {<<"new", f>> : f \in NewFiles} /\ hdr = "new" /\ snap = "new"
=======================================================================
