SPECIFICATION Spec
CONSTANTS
  Keys <- AllKeys
INVARIANTS Sorted PrefixFree OwnPrefix Resolves Count
PROPERTIES TouchesOnlyAddressed
VIEW View
CHECK_DEADLOCK FALSE
