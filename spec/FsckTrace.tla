---------------------------- MODULE FsckTrace ----------------------------
(* C07 / C13, I->S binding: evaluates Fsck.tla on every projection of the  *)
(* real files that the sequential engine logged at a quiescent point        *)
(* (after Flush, after every GC cycle, after reopen, after iteration).      *)
(* The environment variable VRULES selects "C07" or "C13".                  *)
EXTENDS TraceLib, Fsck

VARIABLES l
vars == <<l>>
Init == l = 1 /\ RegInit

Which == IF "VRULES" \in DOMAIN IOEnv THEN IOEnv.VRULES ELSE "C07"

Rules(e) ==
  IF "st" \notin DOMAIN e THEN {}
  ELSE IF "readerr" \in DOMAIN e.st THEN {"projection-unreadable"}
  ELSE IF Which = "C13" THEN C13Rules(e.st, e.bk) ELSE C07Rules(e.st, e.bk)

Next ==
  /\ l <= Len(Trace)
  /\ Flag(Trace[l], Rules(Trace[l]))
  /\ Consumed(l)
  /\ l' = l + 1

Spec == Init /\ [][Next]_vars
=======================================================================
