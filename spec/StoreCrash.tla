----------------------------- MODULE StoreCrash -----------------------------
(* Store.tla extended by Close/reopen and by a process crash at every stage  *)
(* of a commit, followed by the recovery the real OpenStore performs.         *)
(*                                                                            *)
(* The commit of Store.Flush (store/store.go commit) writes, in this order:   *)
(*   1 the primary pool   (records appended in Put order)                     *)
(*   2 the index pool     (the dirty buckets' record lists, any order)        *)
(*   3 the freelist pool                                                      *)
(* A process crash keeps what completed writes put into the files and loses   *)
(* the pools, the in-memory bucket table, the predicted position and the      *)
(* collectors' memory (`gcmem`).  Crash(np, order, ni, fl) stops the commit      *)
(* after np primary records, ni record lists (only once the primary is        *)
(* complete) and with or without the freelist (only once the index is         *)
(* complete); np = ni = 0 is a crash outside any commit.  Recovery: the       *)
(* bucket table is rebuilt by the rescan (no snapshot survives a crash), the  *)
(* next record goes to the end of the last primary file.                      *)
(*                                                                            *)
(* Durable (the design-level statement of C03 for this mechanism): after the  *)
(* recovery every key reads the value of the last completed commit or one     *)
(* acknowledged since.  NoLiveFreed (C07 F4 / C13 safety half): no location   *)
(* on the freelist, in the pool or in .gc is named by an index entry - this   *)
(* is what the commit ORDER protects: with the freelist written before the    *)
(* index a crash in between leaves a live record on the freelist and the next *)
(* primary GC destroys it.  CommitOrder is a constant so that the wrong       *)
(* orders can be model-checked and shown to fail.                             *)
EXTENDS Store

CONSTANTS CommitOrder,    \* "pif" = primary, index, freelist (the code); "pfi" = freelist before index (seeded change C03-a)
          Faults          \* subset of {"reopen", "crash"}: which of the two are among the calls

VARIABLES dur,            \* contents at the last completed commit / close / recovery
          since,          \* key -> set of values acknowledged since then (-1 = removed)
          ok              \* verdicts on the last step: [crash] what a recovery found is allowed; [paths] both recovery paths agree
cvars == <<vars, dur, since, ok>>
CView == <<View, dur, since, ok>>
AllOK == [crash |-> TRUE, paths |-> TRUE]

CInit == Init /\ dur = [k \in Keys |-> -1] /\ since = [k \in Keys |-> {}] /\ ok = AllOK

CPut(k, v) == Put(k, v) /\ since' = [since EXCEPT ![k] = @ \cup {v}] /\ UNCHANGED dur /\ ok' = AllOK
CRemove(k) == Remove(k) /\ since' = [since EXCEPT ![k] = @ \cup {-1}] /\ UNCHANGED dur /\ ok' = AllOK
CFlush == Flush /\ dur' = kv /\ since' = [k \in Keys |-> {}] /\ ok' = AllOK
\* a collector's cycle commits nothing on its own account (relocated copies stay in the pools)
CPriGC(lu, d) == PriGCd(lu, d) /\ UNCHANGED <<dur, since>> /\ ok' = AllOK
CIdxGC(sf, d) == IdxGCd(sf, d) /\ UNCHANGED <<dur, since>> /\ ok' = AllOK

\* ---- what an open computes from the files alone (pure functions of the files: no pools, no live table)
\* the rescan: every file from the first one, records in order, deleted ones skipped, a later record of a bucket wins
RECURSIVE ScanFilesOf(_, _, _, _)
ScanFilesOf(files, first, i, t) ==
  IF i > Len(files) THEN t ELSE ScanFilesOf(files, first, i + 1, ScanRecs(files[i], 1, 0, first + i - 1, t))
RescanOf(files, first) == ScanFilesOf(files, first, 1, [b \in Buckets |-> 0])
\* a lookup with empty pools: bucket table -> record list on disk -> primary record -> full-key comparison
ListOf(tbl, files, first, b) ==
  IF tbl[b] = 0 THEN <<>>
  ELSE LET fnum  == (tbl[b] - 4) \div IdxLimit
           local == tbl[b] - fnum * IdxLimit - 4
           recs  == files[fnum - first + 1]
           offs  == IOffsets(recs, 1, 0)
           j     == CHOOSE j \in 1..Len(recs) : offs[j] = local
       IN recs[j].ents
RecAt(pfs, pfst, off) ==
  LET fi == off \div PriLimit - pfst + 1   local == off % PriLimit IN
  IF fi < 1 \/ fi > Len(pfs) THEN [found |-> FALSE, k |-> <<>>, v |-> 0, del |-> FALSE]
  ELSE LET recs == pfs[fi]   offs == POffsets(recs, 1, 0) IN
       IF \E j \in 1..Len(recs) : offs[j] = local
       THEN LET j == CHOOSE j \in 1..Len(recs) : offs[j] = local IN [found |-> TRUE, k |-> recs[j].k, v |-> recs[j].v, del |-> recs[j].del]
       ELSE [found |-> FALSE, k |-> <<>>, v |-> 0, del |-> FALSE]
ValueOf(tbl, ifs, ifst, pfs, pfst, k) ==
  LET l == ListOf(tbl, ifs, ifst, Bucket(k))
      m == Match(l, Strip(k))
  IN IF m = 0 THEN -1
     ELSE LET r == RecAt(pfs, pfst, l[m].loc.off) IN IF r.found /\ ~r.del /\ r.k = k THEN r.v ELSE -1
ContentsOf(tbl, ifs, ifst, pfs, pfst) == [k \in Keys |-> ValueOf(tbl, ifs, ifst, pfs, pfst, k)]

\* what an open sets up besides the table
Reopened(pfs, pl) ==
  /\ pnext' = <<>> /\ inext' = [b \in Buckets |-> NoList] /\ flpool' = <<>>
  /\ recFile' = pfirst + Len(pfs) - 1 /\ recPos' = pl
  /\ gcmem' = NoMem

\* Close (commit of everything, freelist included, snapshot of the table) and reopen through the snapshot or - the
\* snapshot deleted or unreadable - through the rescan
ReopenWith(how, order) ==
  /\ Call([op |-> "reopen", how |-> how])
  /\ LET pa   == PriAppendAll(pfiles, plen, pnext)
         ia   == IdxAppendAll(ifiles, ilen, order, inext, bk)
         scan == RescanOf(ia.files, ifirst)
     IN /\ pfiles' = pa.files /\ plen' = pa.len
        /\ ifiles' = ia.files /\ ilen' = ia.len
        /\ flfile' = flfile \o flpool
        /\ UNCHANGED <<kv, ifirst, pfirst, flgc>>
        /\ Reopened(pa.files, pa.len)
        /\ bk' = IF how = "snapshot" THEN ia.bk ELSE scan
        /\ ok' = [crash |-> TRUE, paths |-> ia.bk = scan]
  /\ dur' = kv /\ since' = [k \in Keys |-> {}]
Reopen(how) == \E order \in Perms(Dirty) : ReopenWith(how, order)

Crash(np, order, ni, fl) ==
  /\ Call([op |-> "crash", np |-> np, ni |-> ni, fl |-> fl])
  /\ LET pa   == PriAppendAll(pfiles, plen, SubSeq(pnext, 1, np))
         ia   == IdxAppendAll(ifiles, ilen, SubSeq(order, 1, ni), inext, bk)
         scan == RescanOf(ia.files, ifirst)
         cont == ContentsOf(scan, ia.files, ifirst, pa.files, pfirst)
     IN /\ pfiles' = pa.files /\ plen' = pa.len
        /\ ifiles' = ia.files /\ ilen' = ia.len
        /\ flfile' = IF fl THEN flfile \o flpool ELSE flfile
        /\ UNCHANGED <<ifirst, pfirst, flgc>>
        /\ Reopened(pa.files, pa.len)
        /\ bk' = scan
        /\ kv' = cont                       \* the recovered contents are what the store now holds ...
        \* ... and they must be explainable: per key the committed value or one acknowledged since (C03)
        /\ ok' = [crash |-> \A k \in Keys : cont[k] \in {dur[k]} \cup since[k], paths |-> TRUE]
        /\ dur' = cont /\ since' = [k \in Keys |-> {}]

Stages(order) ==      \* the crash points of one commit in the configured order
  LET P == Len(pnext)   I == Len(order) IN
  IF CommitOrder = "pif"
  THEN {<<np, 0, FALSE>> : np \in 0..P} \cup {<<P, ni, FALSE>> : ni \in 1..I} \cup {<<P, I, TRUE>>}
  ELSE {<<np, 0, FALSE>> : np \in 0..P} \cup {<<P, ni, TRUE>> : ni \in 0..I}        \* "pfi"

CrashAny == \E order \in Perms(Dirty) : \E st \in Stages(order) : Crash(st[1], order, st[2], st[3])

CNext == \/ (\E k \in Keys, v \in Vals : CPut(k, v)) \/ (\E k \in Keys : CRemove(k)) \/ CFlush
         \/ (WithGC /\ ((\E lu \in LowUses, d \in Deadlines : CPriGC(lu, d)) \/ \E sf \in BOOLEAN, d \in IDeadlines : CIdxGC(sf, d)))
         \/ ("reopen" \in Faults /\ \E how \in {"snapshot", "rescan"} : Reopen(how))
         \/ ("crash" \in Faults /\ CrashAny)
CSpec == CInit /\ [][CNext]_cvars

Durable == ok.crash                        \* C03 for this mechanism
ReopenPathsAgree == ok.paths               \* C02 for this mechanism
\* the pure functions above are the module's own lookup and rescan
PureAgrees == /\ RescanOf(ifiles, ifirst) = RescanTable
              /\ (pnext = <<>> /\ Dirty = {}) => ContentsOf(bk, ifiles, ifirst, pfiles, pfirst) = Contents
\* no freed location is live (C07 F4; the safety half of C13 that survives a crash)
Range(s) == {s[i] : i \in DOMAIN s}
Named == UNION {{EffList(b).l[i].loc : i \in 1..Len(EffList(b).l)} : b \in Buckets}
NoLiveFreed == \A e \in Range(flfile) \cup Range(flpool) \cup Range(flgc.l) : e \notin Named
=======================================================================
