----------------------------- MODULE StoreCrash -----------------------------
(* Store.tla extended by Close/reopen and by a process crash at every stage  *)
(* of a commit, followed by the recovery the real OpenStore performs.         *)
(*                                                                            *)
(* The commit of Store.Flush (store/store.go commit) writes, in this order:   *)
(*   1 the primary pool   (records appended in Put order)                     *)
(*   2 the index pool     (the dirty buckets' record lists, any order)        *)
(*   3 the freelist pool                                                      *)
(* A process crash keeps what completed writes put into the files and loses   *)
(* the pools, the in-memory bucket table, the predicted position and the      *)
(* collector's `visited` set.  Crash(np, order, ni, fl) stops the commit      *)
(* after np primary records, ni record lists (only once the primary is        *)
(* complete) and with or without the freelist (only once the index is         *)
(* complete); np = ni = 0 is a crash outside any commit.  Recovery: the       *)
(* bucket table is rebuilt by the rescan (no snapshot survives a crash), the  *)
(* next record goes to the end of the last primary file.                      *)
(*                                                                            *)
(* Durable (the design-level statement of C03 for this mechanism): after the  *)
(* recovery every key reads the value of the last completed commit or one     *)
(* acknowledged since.  NoLiveFreed (C07 F4 / C13 safety half): no location   *)
(* on the freelist, in the pool or in .gc is named by an index entry - this   *)
(* is what the commit ORDER protects: with the freelist written before the    *)
(* index a crash in between leaves a live record on the freelist and the next *)
(* primary GC destroys it.  CommitOrder is a constant so that the wrong       *)
(* orders can be model-checked and shown to fail.                             *)
EXTENDS Store

CONSTANT CommitOrder      \* "pif" = primary, index, freelist (the code); "pfi" = freelist before index (seeded change C03-a)

VARIABLES dur,            \* contents at the last completed commit / close / recovery
          since           \* key -> set of values acknowledged since then (-1 = removed)
cvars == <<vars, dur, since>>
CView == <<View, dur, since>>

CInit == Init /\ dur = [k \in Keys |-> -1] /\ since = [k \in Keys |-> {}]

CPut(k, v) == Put(k, v) /\ since' = [since EXCEPT ![k] = @ \cup {v}] /\ UNCHANGED dur
CRemove(k) == Remove(k) /\ since' = [since EXCEPT ![k] = @ \cup {-1}] /\ UNCHANGED dur
CFlush == Flush /\ dur' = kv' /\ since' = [k \in Keys |-> {}]
\* a collector's cycle commits nothing on its own account (relocated copies stay in the pools)
CPriGC(lu) == PriGC(lu) /\ UNCHANGED <<dur, since>>
CIdxGC(sf) == IdxGC(sf) /\ UNCHANGED <<dur, since>>

\* what an open finds and sets up, given the files
Reopened(tableFromRescan) ==
  /\ pnext' = <<>> /\ inext' = [b \in Buckets |-> NoList] /\ flpool' = <<>>
  /\ recFile' = pfirst' + Len(pfiles') - 1 /\ recPos' = plen'
  /\ visited' = {}
  /\ bk' = tableFromRescan

\* Close (commit of everything, freelist included, snapshot of the table) and reopen through the snapshot or - the
\* snapshot deleted or unreadable - through the rescan
Reopen(how) ==
  /\ Call([op |-> "reopen", how |-> how])
  /\ \E order \in Perms(Dirty) :
       LET pa == PriAppendAll(pfiles, plen, pnext)
           ia == IdxAppendAll(ifiles, ilen, order, inext, bk)
       IN /\ pfiles' = pa.files /\ plen' = pa.len
          /\ ifiles' = ia.files /\ ilen' = ia.len
          /\ flfile' = flfile \o flpool
          /\ UNCHANGED <<kv, ifirst, pfirst, flgc>>
          /\ Reopened(IF how = "snapshot" THEN ia.bk ELSE RescanTable')
  /\ dur' = kv' /\ since' = [k \in Keys |-> {}]

Crash(np, order, ni, fl) ==
  /\ Call([op |-> "crash", np |-> np, ni |-> ni, fl |-> fl])
  /\ LET pa == PriAppendAll(pfiles, plen, SubSeq(pnext, 1, np))
         ia == IdxAppendAll(ifiles, ilen, SubSeq(order, 1, ni), inext, bk)
     IN /\ pfiles' = pa.files /\ plen' = pa.len
        /\ ifiles' = ia.files /\ ilen' = ia.len
        /\ flfile' = IF fl THEN flfile \o flpool ELSE flfile
        /\ UNCHANGED <<ifirst, pfirst, flgc>>
        /\ Reopened(RescanTable')
  /\ kv' = Contents'                       \* the recovered contents are what the store now holds ...
  /\ dur' = kv' /\ since' = [k \in Keys |-> {}]

Stages(order) ==      \* the crash points of one commit in the configured order
  LET P == Len(pnext)   I == Len(order) IN
  IF CommitOrder = "pif"
  THEN {<<np, 0, FALSE>> : np \in 0..P} \cup {<<P, ni, FALSE>> : ni \in 1..I} \cup {<<P, I, TRUE>>}
  ELSE {<<np, 0, FALSE>> : np \in 0..P} \cup {<<P, ni, TRUE>> : ni \in 0..I}        \* "pfi"

CrashAny == \E order \in Perms(Dirty) : \E st \in Stages(order) : Crash(st[1], order, st[2], st[3])

CNext == \/ (\E k \in Keys, v \in Vals : CPut(k, v)) \/ (\E k \in Keys : CRemove(k)) \/ CFlush
         \/ (WithGC /\ ((\E lu \in LowUses : CPriGC(lu)) \/ \E sf \in BOOLEAN : CIdxGC(sf)))
         \/ (\E how \in {"snapshot", "rescan"} : Reopen(how))
         \/ CrashAny
CSpec == CInit /\ [][CNext]_cvars

\* ... and they must be explainable: per key the committed value or one acknowledged since (C03)
Durable == \A k \in Keys : kv[k] \in {dur[k]} \cup since[k]
\* the last call was a crash => what was recovered is allowed (the action form of the same statement)
CrashRecoversAllowed ==
  [][hist'[Len(hist')].op = "crash" => \A k \in Keys : Contents'[k] \in {dur[k]} \cup since[k]]_cvars
\* no freed location is live (C07 F4; the safety half of C13 that survives a crash)
Range(s) == {s[i] : i \in DOMAIN s}
Named == UNION {{EffList(b).l[i].loc : i \in 1..Len(EffList(b).l)} : b \in Buckets}
NoLiveFreed == \A e \in Range(flfile) \cup Range(flpool) \cup Range(flgc.l) : e \notin Named
\* both recovery paths agree (C02)
ReopenPathsAgree == [][hist'[Len(hist')].op = "reopen" => bk' = RescanTable']_cvars
=======================================================================
