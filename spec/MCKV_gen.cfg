SPECIFICATION Spec
INVARIANTS TypeOK EmitFull
PROPERTIES MaintenanceKeeps
CHECK_DEADLOCK FALSE
