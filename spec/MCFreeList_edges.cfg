SPECIFICATION Spec
PROPERTIES EmitEdges
VIEW View
CHECK_DEADLOCK FALSE
