SPECIFICATION Spec
INVARIANTS EmitInv
VIEW View
CHECK_DEADLOCK FALSE
