SPECIFICATION Spec
CONSTANTS
  OldFiles = {0, 1, 2}
  NewFiles = {0, 1}
INVARIANTS SafeOutsideMovePhase FinishedRight
VIEW View
CHECK_DEADLOCK FALSE
