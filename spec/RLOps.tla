------------------------------ MODULE RLOps ------------------------------
(* Constant-level operators of the prefix-compressed record list          *)
(* (store/index/recordlist.go and the trimming rule of Index.Put), shared  *)
(* by RecordList.tla, StoreConc.tla and Store.tla.  An entry is a record   *)
(* with at least the fields p (stored prefix) and k (the full key the      *)
(* primary holds at the entry's location).                                  *)
EXTENDS Bytes

\* ---- RecordList.FindKeyPosition: first index whose prefix > key, else Len+1
FindPos(l, key) ==
  IF \E i \in 1..Len(l) : Greater(l[i].p, key)
  THEN CHOOSE i \in 1..Len(l) : Greater(l[i].p, key) /\ \A j \in 1..(i - 1) : ~Greater(l[j].p, key)
  ELSE Len(l) + 1

\* ---- RecordList.Get / GetRecord: scan, remember the last prefix match, stop at
\*      the first entry that is not a prefix of key and compares greater
StopAt(l, key) ==
  IF \E i \in 1..Len(l) : ~IsPrefix(l[i].p, key) /\ Greater(l[i].p, key)
  THEN CHOOSE i \in 1..Len(l) :
         /\ ~IsPrefix(l[i].p, key) /\ Greater(l[i].p, key)
         /\ \A j \in 1..(i - 1) : ~(~IsPrefix(l[j].p, key) /\ Greater(l[j].p, key))
  ELSE Len(l) + 1

Match(l, key) ==
  LET s == StopAt(l, key) IN
  IF \E i \in 1..(s - 1) : IsPrefix(l[i].p, key)
  THEN CHOOSE i \in 1..(s - 1) : IsPrefix(l[i].p, key) /\ \A j \in (i + 1)..(s - 1) : ~IsPrefix(l[j].p, key)
  ELSE 0

\* ---- Index.Put on an existing list (the trimming rule)
PutListV(l, k, ver) ==
  LET pos  == FindPos(l, k)
      has  == pos > 1
      prev == l[pos - 1]
  IN IF has /\ IsPrefix(prev.p, k)
     THEN \* previous prefix is contained in the new key: read the previous full key
          LET pk == prev.k
              t  == FNCB(k, pk)
              tp == [p |-> Take(pk, Min(t + 1, Len(pk))), k |-> prev.k, v |-> prev.v]
              tk == [p |-> Take(k, t + 1), k |-> k, v |-> ver]
          IN IF t >= Len(k) THEN l     \* same key already there: no-op
             ELSE Splice(l, pos - 1, pos, IF Greater(tk.p, tp.p) THEN <<tp, tk>> ELSE <<tk, tp>>)
     ELSE LET a == IF has THEN FNCB(k, prev.p) ELSE 0
              b == IF pos <= Len(l) THEN FNCB(k, l[pos].p) ELSE 0
              t == Min(Max(a, b), Len(k) - 1)
          IN Splice(l, pos, pos, << [p |-> Take(k, t + 1), k |-> k, v |-> ver] >>)

\* first key of an empty bucket: one byte
PutFirstV(k, ver) == << [p |-> Take(k, 1), k |-> k, v |-> ver] >>


\* the same insertion rule for entries that carry a location instead of a version
PutListL(l, k, loc) ==
  LET pos  == FindPos(l, k)
      has  == pos > 1
      prev == l[pos - 1]
  IN IF has /\ IsPrefix(prev.p, k)
     THEN LET pk == prev.k
              t  == FNCB(k, pk)
              tp == [p |-> Take(pk, Min(t + 1, Len(pk))), k |-> prev.k, loc |-> prev.loc]
              tk == [p |-> Take(k, t + 1), k |-> k, loc |-> loc]
          IN IF t >= Len(k) THEN l
             ELSE Splice(l, pos - 1, pos, IF Greater(tk.p, tp.p) THEN <<tp, tk>> ELSE <<tk, tp>>)
     ELSE LET a == IF has THEN FNCB(k, prev.p) ELSE 0
              b == IF pos <= Len(l) THEN FNCB(k, l[pos].p) ELSE 0
              t == Min(Max(a, b), Len(k) - 1)
          IN Splice(l, pos, pos, << [p |-> Take(k, t + 1), k |-> k, loc |-> loc] >>)
PutFirstL(k, loc) == << [p |-> Take(k, 1), k |-> k, loc |-> loc] >>
=======================================================================
