----------------------------- MODULE Lifecycle -----------------------------
(* C17.  The stop handshakes of Store.Close with the three background       *)
(* goroutines of a started store:                                            *)
(*   flusher   Store.run            closing / closed channels                *)
(*   index GC  Index.garbageCollector (outer) + one cycle goroutine (inner)  *)
(*             gcStop / gcDone, context cancellation                         *)
(*   primary GC primaryGC.run (outer) + one cycle goroutine (inner)          *)
(*             stop / done, context cancellation                             *)
(* A cycle goroutine performs file steps one after the other (the yield      *)
(* points of the code) and looks at its context only between them.           *)
(* Close: stop flusher; flush primary; index.Close (stop index GC, flush,    *)
(* close file, save snapshot); primary.Close (stop primary GC, flush, close  *)
(* file); clear the file cache; freelist.Close.                              *)
(*                                                                           *)
(* StopPrimaryGCFirst = FALSE is the order of the code as delivered: the     *)
(* index is flushed and closed while a primary-GC cycle may still relocate   *)
(* a record; the relocation's index update then never reaches the disk       *)
(* although the old location is freed (invariant RelocationFlushed).         *)
EXTENDS Integers, Sequences, FiniteSets, TLC

CONSTANTS CycleSteps,          \* number of file steps of one GC cycle
          StopPrimaryGCFirst

VARIABLES fl,        \* flusher: "running" | "stopped"
          ig, ic,    \* index GC outer: "wait" | "cycle" | "stopped";  inner: 0 (none) | 1..CycleSteps (about to do step n)
          pg, pcy,   \* primary GC outer / inner likewise
          icancel, pcancel,
          cpc,       \* Close program counter
          idxOpen,   \* index file open (updates can still be flushed)
          lateIdx,   \* an index update was made after the index was flushed for the last time
          lastStep,  \* ghost: a file step happened after Close returned
          hist
vars == <<fl, ig, ic, pg, pcy, icancel, pcancel, cpc, idxOpen, lateIdx, lastStep, hist>>
View == <<fl, ig, ic, pg, pcy, icancel, pcancel, cpc, idxOpen, lateIdx, lastStep>>

Init ==
  /\ fl = "running" /\ ig = "wait" /\ ic = 0 /\ pg = "wait" /\ pcy = 0
  /\ icancel = FALSE /\ pcancel = FALSE
  /\ cpc = "open" /\ idxOpen = TRUE /\ lateIdx = FALSE /\ lastStep = FALSE
  /\ hist = <<>>

Log(x) == hist' = Append(hist, x)
Returned == cpc = "returned"

\* ---- index GC
ITick  == ig = "wait" /\ ic = 0 /\ ig' = "cycle" /\ ic' = 1 /\ Log("ig.start")
          /\ UNCHANGED <<fl, pg, pcy, icancel, pcancel, cpc, idxOpen, lateIdx, lastStep>>
IStep  == ic > 0 /\ Log(<<"ig.step", ic>>)
          /\ lastStep' = (lastStep \/ Returned)
          /\ ic' = (IF ic = CycleSteps \/ icancel THEN 0 ELSE ic + 1)       \* context looked at between steps
          /\ ig' = (IF (ic = CycleSteps \/ icancel) /\ ig = "cycle" THEN "wait" ELSE ig)
          /\ UNCHANGED <<fl, pg, pcy, icancel, pcancel, cpc, idxOpen, lateIdx>>
\* ---- primary GC (its relocation step updates the index)
PTick  == pg = "wait" /\ pcy = 0 /\ pg' = "cycle" /\ pcy' = 1 /\ Log("pg.start")
          /\ UNCHANGED <<fl, ig, ic, icancel, pcancel, cpc, idxOpen, lateIdx, lastStep>>
PStep  == pcy > 0 /\ Log(<<"pg.step", pcy>>)
          /\ lastStep' = (lastStep \/ Returned)
          /\ lateIdx' = (lateIdx \/ ~idxOpen)         \* relocation re-points the index: lost if the index is closed already
          /\ pcy' = (IF pcy = CycleSteps \/ pcancel THEN 0 ELSE pcy + 1)
          /\ pg' = (IF (pcy = CycleSteps \/ pcancel) /\ pg = "cycle" THEN "wait" ELSE pg)
          /\ UNCHANGED <<fl, ig, ic, icancel, pcancel, cpc, idxOpen>>

\* ---- Close
CStep(from, to) == cpc = from /\ cpc' = to /\ Log(<<"close", to>>)
CStart      == CStep("open", "stopFlusher") /\ UNCHANGED <<fl, ig, ic, pg, pcy, icancel, pcancel, idxOpen, lateIdx, lastStep>>
CStopFl     == CStep("stopFlusher", IF StopPrimaryGCFirst THEN "stopPG0" ELSE "stopIG") /\ fl' = "stopped"
               /\ UNCHANGED <<ig, ic, pg, pcy, icancel, pcancel, idxOpen, lateIdx, lastStep>>
\* repaired order: primary GC is stopped before the index is flushed and closed
CStopPG0a   == cpc = "stopPG0" /\ ~pcancel /\ pcancel' = TRUE /\ Log(<<"close", "cancelPG">>)
               /\ UNCHANGED <<fl, ig, ic, pg, pcy, icancel, cpc, idxOpen, lateIdx, lastStep>>
CStopPG0b   == cpc = "stopPG0" /\ pcancel /\ pcy = 0 /\ pg' = "stopped" /\ cpc' = "stopIG" /\ Log(<<"close", "pgStopped">>)
               /\ UNCHANGED <<fl, ig, ic, pcy, icancel, pcancel, idxOpen, lateIdx, lastStep>>
CStopIGa    == cpc = "stopIG" /\ ~icancel /\ icancel' = TRUE /\ Log(<<"close", "cancelIG">>)
               /\ UNCHANGED <<fl, ig, ic, pg, pcy, pcancel, cpc, idxOpen, lateIdx, lastStep>>
CStopIGb    == cpc = "stopIG" /\ icancel /\ ic = 0 /\ ig' = "stopped" /\ idxOpen' = FALSE       \* wait gcDone; flush; close; snapshot
               /\ cpc' = (IF StopPrimaryGCFirst THEN "rest" ELSE "stopPG") /\ Log(<<"close", "indexClosed">>)
               /\ UNCHANGED <<fl, ic, pg, pcy, icancel, pcancel, lateIdx, lastStep>>
CStopPGa    == cpc = "stopPG" /\ ~pcancel /\ pcancel' = TRUE /\ Log(<<"close", "cancelPG">>)
               /\ UNCHANGED <<fl, ig, ic, pg, pcy, icancel, cpc, idxOpen, lateIdx, lastStep>>
CStopPGb    == cpc = "stopPG" /\ pcancel /\ pcy = 0 /\ pg' = "stopped" /\ cpc' = "rest" /\ Log(<<"close", "pgStopped">>)
               /\ UNCHANGED <<fl, ig, ic, pcy, icancel, pcancel, idxOpen, lateIdx, lastStep>>
CRest       == CStep("rest", "returned") /\ UNCHANGED <<fl, ig, ic, pg, pcy, icancel, pcancel, idxOpen, lateIdx, lastStep>>

\* a stopped outer goroutine never starts another cycle
Next == \/ (ig = "wait" /\ ~icancel /\ ITick) \/ IStep
        \/ (pg = "wait" /\ ~pcancel /\ PTick) \/ PStep
        \/ CStart \/ CStopFl \/ CStopPG0a \/ CStopPG0b \/ CStopIGa \/ CStopIGb \/ CStopPGa \/ CStopPGb \/ CRest
Spec == Init /\ [][Next]_vars

\* ------------------------------------------------------------------ C17
AllStopped == Returned => (fl = "stopped" /\ ig = "stopped" /\ pg = "stopped" /\ ic = 0 /\ pcy = 0)
NoStepAfterClose == ~lastStep
\* C02 side condition found with this model: nothing the collectors decided after the last index
\* flush may be lost (violated by the delivered Close order)
RelocationFlushed == ~lateIdx
=======================================================================
